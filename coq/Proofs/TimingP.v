(** Proofs about the binary32 model of the symbol timing loop (symsync.rs TimingLoop::advance_loop): for every sequence of finite
    demodulator samples and finite clock offsets the average period stays finite and inside [period_min, period_max], the
    commanded period is finite and never below -0.5 samples -- it never becomes a NaN, the clock never stalls or runs away.
    This is the "period clamp" anchor of C10, for ALL inputs. *)
From Coq Require Import ZArith NArith Bool List Lia Reals Lra.
From Flocq Require Import Core BinarySingleNaN.
From Sameold Require Import Model.ConfigSizes Model.FloatDsp Proofs.AgcP.
Import ListNotations.
Open Scope R_scope.

Local Notation fexp := (SpecFloat.fexp prec emax).
Local Notation rnd := (round radix2 fexp (round_mode mode_NE)).
Local Notation B2R := (@B2R prec emax).
Local Notation is_finite := (@is_finite prec emax).
Local Notation is_nan := (@is_nan prec emax).

(** ** a finite float of magnitude at most 2^k *)
Definition bnd (x : f32) (k : Z) : Prop := is_finite x = true /\ Rabs (B2R x) <= bpow radix2 k.

Lemma bnd_mono x k k' : (k <= k')%Z -> bnd x k -> bnd x k'.
Proof. intros H [F B]. split; [exact F|]. apply Rle_trans with (1 := B). apply bpow_le, H. Qed.

Lemma format_bpow k : (-149 <= k)%Z -> generic_format radix2 fexp (bpow radix2 k).
Proof. intros H. apply generic_format_bpow. unfold SpecFloat.fexp, SpecFloat.emin, prec, emax. lia. Qed.

Lemma fadd_bnd_eq x y k : (-149 <= k + 1 < 128)%Z -> bnd x k -> bnd y k ->
  bnd (fadd x y) (k + 1) /\ B2R (fadd x y) = rnd (B2R x + B2R y).
Proof.
  intros Hk [Fx Bx] [Fy By]. pose proof (Bplus_correct prec emax Hprec Hmax mode_NE x y Fx Fy) as C.
  assert (Hle : Rabs (rnd (B2R x + B2R y)) <= bpow radix2 (k + 1)).
  { apply abs_round_le_generic; [apply fexp_correct; reflexivity|apply valid_rnd_N|apply format_bpow; lia|].
    rewrite bpow_plus_1. change (IZR radix2) with 2. pose proof (Rabs_triang (B2R x) (B2R y)). lra. }
  rewrite Rlt_bool_true in C by (apply Rle_lt_trans with (1 := Hle); apply bpow_lt; unfold emax; lia).
  destruct C as (E & F & _). unfold fadd. split; [split; [exact F|rewrite E; exact Hle]|exact E].
Qed.

Lemma fadd_bnd x y k : (-149 <= k + 1 < 128)%Z -> bnd x k -> bnd y k -> bnd (fadd x y) (k + 1).
Proof. intros H A B. apply (fadd_bnd_eq x y k H A B). Qed.

Lemma fsub_bnd x y k : (-149 <= k + 1 < 128)%Z -> bnd x k -> bnd y k -> bnd (fsub x y) (k + 1).
Proof.
  intros Hk [Fx Bx] [Fy By]. pose proof (Bminus_correct prec emax Hprec Hmax mode_NE x y Fx Fy) as C.
  assert (Hle : Rabs (rnd (B2R x - B2R y)) <= bpow radix2 (k + 1)).
  { apply abs_round_le_generic; [apply fexp_correct; reflexivity|apply valid_rnd_N|apply format_bpow; lia|].
    rewrite bpow_plus_1. change (IZR radix2) with 2. unfold Rminus. pose proof (Rabs_triang (B2R x) (- B2R y)). rewrite Rabs_Ropp in H. lra. }
  rewrite Rlt_bool_true in C by (apply Rle_lt_trans with (1 := Hle); apply bpow_lt; unfold emax; lia).
  destruct C as (E & F & _). unfold fsub. split; [exact F|rewrite E; exact Hle].
Qed.

Lemma fmul_bnd x y k1 k2 : (-149 <= k1 + k2 < 128)%Z -> bnd x k1 -> bnd y k2 -> bnd (fmul x y) (k1 + k2).
Proof.
  intros Hk [Fx Bx] [Fy By]. pose proof (Bmult_correct prec emax Hprec Hmax mode_NE x y) as C.
  assert (Hle : Rabs (rnd (B2R x * B2R y)) <= bpow radix2 (k1 + k2)).
  { apply abs_round_le_generic; [apply fexp_correct; reflexivity|apply valid_rnd_N|apply format_bpow; lia|].
    rewrite Rabs_mult, bpow_plus. pose proof (Rabs_pos (B2R x)). pose proof (Rabs_pos (B2R y)). pose proof (bpow_gt_0 radix2 k1). nra. }
  rewrite Rlt_bool_true in C by (apply Rle_lt_trans with (1 := Hle); apply bpow_lt; unfold emax; lia).
  destruct C as (E & F & _). unfold fmul. split; [rewrite F, Fx, Fy; reflexivity|rewrite E; exact Hle].
Qed.

(** division by something of magnitude at least 1 *)
Lemma fdiv_bnd x y k : (-149 <= k < 128)%Z -> bnd x k -> is_finite y = true -> 1 <= Rabs (B2R y) -> bnd (fdiv x y) k.
Proof.
  intros Hk [Fx Bx] Fy Hy.
  assert (Hy0 : B2R y <> 0) by (intros E; rewrite E, Rabs_R0 in Hy; lra).
  pose proof (Bdiv_correct prec emax Hprec Hmax mode_NE x y Hy0) as C.
  assert (Hle : Rabs (rnd (B2R x / B2R y)) <= bpow radix2 k).
  { apply abs_round_le_generic; [apply fexp_correct; reflexivity|apply valid_rnd_N|apply format_bpow; lia|].
    unfold Rdiv. rewrite Rabs_mult, Rabs_inv.
    assert (0 < / Rabs (B2R y) <= 1).
    { split; [apply Rinv_0_lt_compat; lra|]. rewrite <- Rinv_1. apply Rinv_le_contravar; lra. }
    pose proof (Rabs_pos (B2R x)). nra. }
  rewrite Rlt_bool_true in C by (apply Rle_lt_trans with (1 := Hle); apply bpow_lt; unfold emax; lia).
  destruct C as (E & F & _). unfold fdiv. split; [rewrite F; exact Fx|rewrite E; exact Hle].
Qed.

(** a clamp between two bounded limits is bounded; a clamp of a non-NaN lands between the limits *)
Lemma fclamp_bnd x lo hi k : is_nan x = false -> fle lo hi = true -> bnd lo k -> bnd hi k ->
  bnd (fclamp x lo hi) k /\ fle lo (fclamp x lo hi) = true /\ fle (fclamp x lo hi) hi = true.
Proof.
  intros Nx Hle [Fl Bl] [Fh Bh]. destruct (fclamp_range x lo hi Nx Hle) as [L1 L2].
  assert (Fr : is_finite (fclamp x lo hi) = true) by (apply (between_finite lo _ hi Fl Fh L1 L2)).
  split; [|split; assumption]. split; [exact Fr|].
  pose proof (fle_real _ _ Fl Fr L1). pose proof (fle_real _ _ Fr Fh L2).
  apply Rabs_le. apply Rabs_le_inv in Bl. apply Rabs_le_inv in Bh. lra.
Qed.

Lemma bnd_nn x k : bnd x k -> is_nan x = false.
Proof. intros [F _]. apply finite_not_nan, F. Qed.

(** ** constants *)
Lemma fhalf_constructor : exists H, fhalf = B754_finite false 8388608 (-24) H.
Proof. unfold fhalf, of_me. vm_compute. eexists. reflexivity. Qed.
Lemma bnd_f1 : bnd f1 0.
Proof. split; [destruct f1_constructor as [H ->]; reflexivity|]. rewrite B2R_f1, Rabs_R1. simpl. lra. Qed.
Lemma bnd_neg x k : bnd x k -> bnd (fneg x) k.
Proof. intros [F B]. unfold fneg. split; [rewrite is_finite_Bopp; exact F|rewrite B2R_Bopp, Rabs_Ropp; exact B]. Qed.
Lemma B2R_fhalf : B2R fhalf = / 2.
Proof.
  destruct fhalf_constructor as [H ->]. unfold BinarySingleNaN.B2R, F2R. cbn [Fnum Fexp cond_Zopp].
  change (bpow radix2 (-24)) with (/ IZR (Z.pow_pos 2 24)). change (Z.pow_pos 2 24) with 16777216%Z. field.
Qed.
Lemma bnd_fhalf : bnd fhalf 0.
Proof. split; [destruct fhalf_constructor as [H ->]; reflexivity|]. rewrite B2R_fhalf. simpl. rewrite Rabs_pos_eq; lra. Qed.
Lemma fle_neg_pos_half : fle (fneg fhalf) fhalf = true.
Proof. destruct fhalf_constructor as [H ->]. reflexivity. Qed.
Lemma fle_neg_pos_one : fle (fneg f1) f1 = true.
Proof. destruct f1_constructor as [H ->]. reflexivity. Qed.

(** ** the timing loop's invariant *)
Record tl_cfg (l : tloop) : Prop := {
  tc_spt : is_finite (tl_spt l) = true /\ 1 <= Rabs (B2R (tl_spt l));
  tc_min : bnd (tl_pmin l) 20; tc_max : bnd (tl_pmax l) 20; tc_le : fle (tl_pmin l) (tl_pmax l) = true;
  tc_min0 : 0 <= B2R (tl_pmin l);
  tc_alpha : bnd (tl_alpha l) 1; tc_beta : bnd (tl_beta l) 1 }.

Definition tl_ok (l : tloop) : Prop :=
  bnd (tl_pavg l) 20 /\ fle (tl_pmin l) (tl_pavg l) = true /\ fle (tl_pavg l) (tl_pmax l) = true /\ bnd (tl_pinst l) 23.

(** the estimate of a timing error detector fed with bounded samples is bounded *)
Lemma fsignum_bnd x : is_nan x = false -> bnd (fsignum x) 0.
Proof.
  intros N. destruct x as [s|s| |s m e H]; try discriminate; cbn [fsignum]; destruct s; try apply bnd_f1; apply (bnd_neg _ _ bnd_f1).
Qed.

Lemma ted_err_bnd h0 h1 h2 : is_nan h0 = false -> bnd h1 30 -> is_nan h2 = false ->
  bnd (fmul h1 (fsub (fsignum h0) (fsignum h2))) 31.
Proof.
  intros N0 B1 N2. change 31%Z with (30 + 1)%Z. apply fmul_bnd; [lia|exact B1|].
  change 1%Z with (0 + 1)%Z. apply fsub_bnd; [lia|apply fsignum_bnd, N0|apply fsignum_bnd, N2].
Qed.

(** one call of advance_loop *)
Lemma advance_some (l : tloop) (offset e : f32) (z s : f32) : tl_cfg l -> tl_ok l -> is_nan offset = false -> bnd e 31 ->
  let l' := fst (tloop_advance l offset (Some (z, s, e))) in
  tl_ok l' /\ bnd (tl_pinst l') 22 /\ 0 <= B2R (tl_pinst l').
Proof.
  intros C (Ba & La1 & La2 & Bi) No Be. unfold tloop_advance. cbn [fst tl_pavg tl_pinst tl_pmin tl_pmax].
  destruct (fclamp_bnd offset (fneg fhalf) fhalf 0 No fle_neg_pos_half (bnd_neg _ _ bnd_fhalf) bnd_fhalf) as (Bo & _ & _).
  set (o := fclamp offset (fneg fhalf) fhalf) in *.
  assert (Bq : bnd (fdiv o (tl_spt l)) 0) by (apply fdiv_bnd; [lia|exact Bo|apply C|apply C]).
  assert (Bd : bnd (fsub e (fdiv o (tl_spt l))) 32).
  { change 32%Z with (31 + 1)%Z. apply fsub_bnd; [lia|exact Be|apply (bnd_mono _ 0); [lia|exact Bq]]. }
  destruct (fclamp_bnd _ (fneg f1) f1 0 (bnd_nn _ _ Bd) fle_neg_pos_one (bnd_neg _ _ bnd_f1) bnd_f1) as (Berr & _ & _).
  set (err := fclamp (fsub e (fdiv o (tl_spt l))) (fneg f1) f1) in *.
  assert (Bb : bnd (fmul (tl_beta l) err) 1) by (change 1%Z with (1 + 0)%Z; apply fmul_bnd; [lia|apply C|exact Berr]).
  assert (Bs : bnd (fadd (tl_pavg l) (fmul (tl_beta l) err)) 21).
  { change 21%Z with (20 + 1)%Z. apply fadd_bnd; [lia|exact Ba|apply (bnd_mono _ 1); [lia|exact Bb]]. }
  destruct (fclamp_bnd _ (tl_pmin l) (tl_pmax l) 20 (bnd_nn _ _ Bs) (tc_le l C) (tc_min l C) (tc_max l C)) as (Bpa & L1 & L2).
  set (pavg := fclamp (fadd (tl_pavg l) (fmul (tl_beta l) err)) (tl_pmin l) (tl_pmax l)) in *.
  assert (Bal : bnd (fmul (tl_alpha l) err) 1) by (change 1%Z with (1 + 0)%Z; apply fmul_bnd; [lia|apply C|exact Berr]).
  assert (B1 : bnd (fadd pavg (fmul (tl_alpha l) err)) 21).
  { change 21%Z with (20 + 1)%Z. apply fadd_bnd; [lia|exact Bpa|apply (bnd_mono _ 1); [lia|exact Bal]]. }
  assert (B2 : bnd (fadd (fadd pavg (fmul (tl_alpha l) err)) o) 22).
  { change 22%Z with (21 + 1)%Z. apply fadd_bnd; [lia|exact B1|apply (bnd_mono _ 0); [lia|exact Bo]]. }
  set (pi0 := fadd (fadd pavg (fmul (tl_alpha l) err)) o) in *.
  assert (Ppa : 0 <= B2R pavg).
  { pose proof (fle_real _ _ (proj1 (tc_min l C)) (proj1 Bpa) L1). pose proof (tc_min0 l C). lra. }
  destruct (flt pi0 f0) eqn:El.
  - split; [|split; [apply (bnd_mono _ 20); [lia|exact Bpa]|exact Ppa]].
    split; [exact Bpa|split; [exact L1|split; [exact L2|apply (bnd_mono _ 20); [lia|exact Bpa]]]].
  - split; [|split; [exact B2|]].
    + split; [exact Bpa|split; [exact L1|split; [exact L2|apply (bnd_mono _ 22); [lia|exact B2]]]].
    + assert (H0 : fle f0 pi0 = true) by (apply not_flt_fle; [apply (bnd_nn _ _ B2)|reflexivity|exact El]).
      pose proof (fle_real f0 pi0 eq_refl (proj1 B2) H0) as R. exact R.
Qed.

Lemma advance_none (l : tloop) (offset : f32) : tl_cfg l -> tl_ok l -> bnd (tl_pinst l) 22 -> 0 <= B2R (tl_pinst l) ->
  is_nan offset = false ->
  let l' := fst (tloop_advance l offset None) in
  tl_ok l' /\ - / 2 <= B2R (tl_pinst l').
Proof.
  intros C (Ba & La1 & La2 & _) Bi Pi No. unfold tloop_advance. cbn [fst tl_pavg tl_pinst tl_pmin tl_pmax].
  destruct (fclamp_bnd offset (fneg fhalf) fhalf 0 No fle_neg_pos_half (bnd_neg _ _ bnd_fhalf) bnd_fhalf) as (Bo & Lo & _).
  set (o := fclamp offset (fneg fhalf) fhalf) in *.
  destruct (fadd_bnd_eq (tl_pinst l) o 22 ltac:(lia) Bi (bnd_mono _ 0 22 ltac:(lia) Bo)) as (B & E).
  change (22 + 1)%Z with 23%Z in B.
  split; [split; [exact Ba|split; [exact La1|split; [exact La2|exact B]]]|].
  (* the sum is at least round(0 - 1/2) = -1/2 *)
  pose proof (fle_real _ _ (proj1 (bnd_neg _ _ bnd_fhalf)) (proj1 Bo) Lo) as Ro. unfold fneg in Ro. rewrite B2R_Bopp, B2R_fhalf in Ro.
  rewrite E. apply round_ge_generic; [apply fexp_correct; reflexivity|apply valid_rnd_N| |lra].
  rewrite <- B2R_fhalf, <- B2R_Bopp. apply generic_format_B2R.
Qed.

(** ** every run: the detector produces an estimate on every other sample, so [Some] and [None] alternate *)
Definition ted_ok (t : ted) : Prop := bnd (td_h0 t) 30 /\ bnd (td_h1 t) 30 /\ bnd (td_h2 t) 30.
Definition in_ok (so : f32 * f32) : Prop := bnd (fst so) 30 /\ is_nan (snd so) = false.

(** the state between calls: after an estimate ([td_count] = true) the commanded period is non-negative and at most 2^22 *)
Definition tl_inv (l : tloop) : Prop :=
  tl_cfg l /\ tl_ok l /\ ted_ok (tl_ted l) /\
  (td_count (tl_ted l) = true -> bnd (tl_pinst l) 22 /\ 0 <= B2R (tl_pinst l)).

Lemma cfg_preserved l l' : tl_spt l' = tl_spt l -> tl_pmin l' = tl_pmin l -> tl_pmax l' = tl_pmax l ->
  tl_alpha l' = tl_alpha l -> tl_beta l' = tl_beta l -> tl_cfg l -> tl_cfg l'.
Proof. intros E1 E2 E3 E4 E5 [A B C D E F G]. constructor; rewrite ?E1, ?E2, ?E3, ?E4, ?E5; assumption. Qed.

Theorem tloop_input_keeps_the_clock_sane (l : tloop) (sample offset : f32) :
  tl_inv l -> in_ok (sample, offset) ->
  let '(l', (p, _)) := tloop_input l sample offset in
  tl_inv l' /\ is_finite p = true /\ - / 2 <= B2R p /\ p = tl_pinst l'.
Proof.
  intros (C & O & (T0 & T1 & T2) & Hc) (Bs & No). cbn [fst snd] in Bs, No.
  unfold tloop_input, ted_input.
  destruct (td_count (tl_ted l)) eqn:Ec; cbn [negb].
  - (* counter was 1: no estimate this time *)
    destruct (Hc eq_refl) as (Bi & Pi).
    set (l1 := mkTloop (tl_spt l) (tl_pmin l) (tl_pmax l) (tl_alpha l) (tl_beta l) (tl_pavg l) (tl_pinst l)
                       (mkTed (td_h1 (tl_ted l)) (td_h2 (tl_ted l)) sample false)).
    assert (C1 : tl_cfg l1) by (apply (cfg_preserved l); try reflexivity; exact C).
    assert (O1 : tl_ok l1) by exact O.
    destruct (advance_none l1 offset C1 O1 Bi Pi No) as (O2 & P2).
    unfold tloop_advance in *. cbn [fst tl_pavg tl_pinst tl_pmin tl_pmax tl_spt tl_alpha tl_beta tl_ted] in *.
    split; [|split; [apply O2|split; [exact P2|reflexivity]]].
    split; [apply (cfg_preserved l); try reflexivity; exact C|]. split; [exact O2|]. split; [split; [exact T1|split; [exact T2|exact Bs]]|].
    cbn [tl_ted td_count]. discriminate.
  - (* counter was 0: an estimate *)
    set (e := fmul (td_h2 (tl_ted l)) (fsub (fsignum (td_h1 (tl_ted l))) (fsignum sample))).
    assert (Be : bnd e 31) by (apply ted_err_bnd; [apply (bnd_nn _ _ T1)|exact T2|apply (bnd_nn _ _ Bs)]).
    set (l1 := mkTloop (tl_spt l) (tl_pmin l) (tl_pmax l) (tl_alpha l) (tl_beta l) (tl_pavg l) (tl_pinst l)
                       (mkTed (td_h1 (tl_ted l)) (td_h2 (tl_ted l)) sample true)).
    assert (C1 : tl_cfg l1) by (apply (cfg_preserved l); try reflexivity; exact C).
    assert (O1 : tl_ok l1) by exact O.
    destruct (advance_some l1 offset e (td_h2 (tl_ted l)) sample C1 O1 No Be) as (O2 & B2 & P2).
    unfold tloop_advance in *. cbn [fst tl_pavg tl_pinst tl_pmin tl_pmax tl_spt tl_alpha tl_beta tl_ted] in *.
    split; [|split; [apply B2|split; [lra|reflexivity]]].
    split; [apply (cfg_preserved l); try reflexivity; exact C|]. split; [exact O2|]. split; [split; [exact T1|split; [exact T2|exact Bs]]|].
    intros _. split; [exact B2|exact P2].
Qed.

(** ANY sequence of calls with finite samples (|s| <= 2^30) and non-NaN offsets: every commanded period is finite and at
    least -1/2 sample, and the average period stays inside [period_min, period_max] *)
Theorem tloop_never_stalls (ins : list (f32 * f32)) : forall l, tl_inv l -> Forall in_ok ins ->
  tl_inv (fst (tloop_run l ins)) /\ Forall (fun p => is_finite p = true /\ - / 2 <= B2R p) (snd (tloop_run l ins)).
Proof.
  induction ins as [|[s o] ins IH]; intros l I Hin; [split; [exact I|constructor]|].
  inversion Hin as [|x xs Hso Hrest]; subst. cbn [tloop_run].
  pose proof (tloop_input_keeps_the_clock_sane l s o I Hso) as H.
  destruct (tloop_input l s o) as [l1 [p sym]]. destruct H as (I1 & Fp & Pp & _).
  destruct (IH l1 I1 Hrest) as (I2 & F2). destruct (tloop_run l1 ins) as [l2 ps]. cbn [fst snd] in *.
  split; [exact I2|constructor; [split; assumption|exact F2]].
Qed.

(** reset = new: the timing loop after ANY history, reset, is the loop as constructed (same configuration) *)
Lemma tloop_run_cfg ins : forall l, let l' := fst (tloop_run l ins) in
  tl_spt l' = tl_spt l /\ tl_pmin l' = tl_pmin l /\ tl_pmax l' = tl_pmax l /\ tl_alpha l' = tl_alpha l /\ tl_beta l' = tl_beta l.
Proof.
  induction ins as [|[s o] ins IH]; intros l; [cbn; repeat split|]. cbn [tloop_run].
  destruct (tloop_input l s o) as [l1 [p sym]] eqn:E. specialize (IH l1). destruct (tloop_run l1 ins) as [l2 ps]. cbn [fst] in *.
  assert (H : tl_spt l1 = tl_spt l /\ tl_pmin l1 = tl_pmin l /\ tl_pmax l1 = tl_pmax l /\ tl_alpha l1 = tl_alpha l /\ tl_beta l1 = tl_beta l).
  { unfold tloop_input, ted_input, tloop_advance in E. destruct (negb (td_count (tl_ted l))); injection E as <- _ _; cbn; repeat split. }
  destruct IH as (A1 & A2 & A3 & A4 & A5), H as (B1 & B2 & B3 & B4 & B5). repeat split; congruence.
Qed.

Theorem tloop_reset_is_new ins l : tloop_reset (fst (tloop_run l ins)) = tloop_reset l.
Proof. destruct (tloop_run_cfg ins l) as (A1 & A2 & A3 & A4 & A5). unfold tloop_reset. rewrite A1, A2, A3, A4, A5. reflexivity. Qed.

(** ** the same theorem with premises a machine can check *)
Definition two1 : f32 := @B754_finite prec emax false 8388608 (-22) eq_refl.
Definition two22 : f32 := @B754_finite prec emax false 8388608 (-1) eq_refl.
Definition two23 : f32 := @B754_finite prec emax false 8388608 0 eq_refl.
Definition two30 : f32 := @B754_finite prec emax false 8388608 7 eq_refl.
Lemma B2R_pow2 e H k : (23 + e = k)%Z -> B2R (@B754_finite prec emax false 8388608 e H) = bpow radix2 k.
Proof. intros <-. unfold BinarySingleNaN.B2R, F2R. cbn [Fnum Fexp cond_Zopp]. change (IZR 8388608) with (bpow radix2 23). rewrite <- bpow_plus. reflexivity. Qed.

Definition bndb (x lim : f32) : bool := is_finite x && fle (fabs x) lim.
Lemma bndb_bnd x e H k : (23 + e = k)%Z -> bndb x (@B754_finite prec emax false 8388608 e H) = true -> bnd x k.
Proof.
  intros Hk Hb. unfold bndb in Hb. apply andb_true_iff in Hb. destruct Hb as [F L]. split; [exact F|].
  rewrite <- (B2R_pow2 e H k Hk). unfold fabs in L. rewrite <- B2R_Babs. apply fle_real; [rewrite is_finite_Babs; exact F|reflexivity|exact L].
Qed.

Lemma bnd1 x : bndb x two1 = true -> bnd x 1. Proof. exact (bndb_bnd x (-22) eq_refl 1 eq_refl). Qed.
Lemma bnd20 x : bndb x two20 = true -> bnd x 20. Proof. exact (bndb_bnd x (-3) eq_refl 20 eq_refl). Qed.
Lemma bnd22 x : bndb x two22 = true -> bnd x 22. Proof. exact (bndb_bnd x (-1) eq_refl 22 eq_refl). Qed.
Lemma bnd30 x : bndb x two30 = true -> bnd x 30. Proof. exact (bndb_bnd x 7 eq_refl 30 eq_refl). Qed.

Definition tl_premises (l : tloop) : bool :=
  is_finite (tl_spt l) && fle f1 (tl_spt l) &&
  bndb (tl_pmin l) two20 && bndb (tl_pmax l) two20 && fle (tl_pmin l) (tl_pmax l) && fle f0 (tl_pmin l) &&
  bndb (tl_alpha l) two1 && bndb (tl_beta l) two1 &&
  bndb (tl_pavg l) two20 && fle (tl_pmin l) (tl_pavg l) && fle (tl_pavg l) (tl_pmax l) &&
  bndb (tl_pinst l) two22 && fle f0 (tl_pinst l) &&
  bndb (td_h0 (tl_ted l)) two30 && bndb (td_h1 (tl_ted l)) two30 && bndb (td_h2 (tl_ted l)) two30.
Definition in_okb (so : f32 * f32) : bool := bndb (fst so) two30 && negb (is_nan (snd so)).

Lemma tl_premises_inv l : tl_premises l = true -> tl_inv l.
Proof.
  unfold tl_premises. rewrite !andb_true_iff.
  intros (((((((((((((((P1 & P2) & P3) & P4) & P5) & P6) & P7) & P8) & P9) & P10) & P11) & P12) & P13) & P14) & P15) & P16).
  assert (F1 : is_finite f1 = true) by (destruct f1_constructor as [H ->]; reflexivity).
  pose proof (bnd20 _ P3) as B3. pose proof (bnd20 _ P4) as B4.
  pose proof (bnd22 _ P12) as B12.
  split; [|split; [|split]].
  - constructor; try assumption.
    + split; [exact P1|]. pose proof (fle_real _ _ F1 P1 P2) as R. rewrite B2R_f1 in R. rewrite Rabs_pos_eq; lra.
    + pose proof (fle_real f0 _ eq_refl (proj1 B3) P6) as R. exact R.
    + apply (bnd1 _ P7).
    + apply (bnd1 _ P8).
  - split; [apply (bnd20 _ P9)|]. split; [exact P10|]. split; [exact P11|]. apply (bnd_mono _ 22); [lia|exact B12].
  - split; [apply (bnd30 _ P14)|split; [apply (bnd30 _ P15)|apply (bnd30 _ P16)]].
  - intros _. split; [exact B12|]. pose proof (fle_real f0 _ eq_refl (proj1 B12) P13) as R. exact R.
Qed.

Theorem tloop_never_stalls_bool (l : tloop) (ins : list (f32 * f32)) :
  tl_premises l = true -> forallb in_okb ins = true ->
  let l' := fst (tloop_run l ins) in
  forallb (fun p => is_finite p && fle (fneg fhalf) p) (snd (tloop_run l ins)) = true /\
  is_finite (tl_pavg l') = true /\ fle (tl_pmin l') (tl_pavg l') = true /\ fle (tl_pavg l') (tl_pmax l') = true.
Proof.
  intros P Hin l'.
  assert (Hall : Forall in_ok ins).
  { apply Forall_forall. intros so Hso. rewrite forallb_forall in Hin. specialize (Hin so Hso). unfold in_okb in Hin.
    apply andb_true_iff in Hin. destruct Hin as [A B]. split; [apply (bnd30 _ A)|]. destruct (is_nan (snd so)); [discriminate|reflexivity]. }
  destruct (tloop_never_stalls ins l (tl_premises_inv l P) Hall) as ((_ & (Ba & L1 & L2 & _) & _) & Fp).
  split; [|split; [apply Ba|split; assumption]].
  apply forallb_forall. intros p Hp. rewrite Forall_forall in Fp. destruct (Fp p Hp) as [F R]. rewrite F. cbn [andb].
  unfold fle. rewrite (Bleb_correct _ _ _ _ (proj1 (bnd_neg _ _ bnd_fhalf)) F). apply Rle_bool_true.
  unfold fneg. rewrite B2R_Bopp, B2R_fhalf. exact R.
Qed.

(** the timing loop of a receiver at 22 050 Hz as the constructor builds it (values read from its Debug rendering:
    samples_per_ted 21.168135, period 20.744772 .. 21.591497, alpha 0.79212046, beta 0.29600334) meets the premises, and so do a loud
    sample and an arbitrary finite offset *)
Definition tloop_22050 : tloop :=
  mkTloop (of_bits 1101617239) (of_bits 1101395275) (of_bits 1101839203) (of_bits 1061865576) (of_bits 1050119616)
          (of_bits 1101617239) (of_bits 1101617239) ted_new.
Example tloop_premises_hold :
  tl_premises tloop_22050 = true /\ in_okb (of_bits 1315859240, of_bits 3212836864) = true.      (* 1e9, -1.0 *)
Proof. vm_compute. split; reflexivity. Qed.
