(** C10 / C03: the 2-of-3 bit majority of three DIFFERENT header bursts is, in general, a text none of them
    carried; when it happens to fit the header grammar it is accepted as a header (known finding F12). *)
From Sameold Require Import Base.Bytes Model.Header Model.Combiner.
Local Open Scope N_scope.

Definition f12_b1 : bytes := [90; 67; 90; 67; 45; 80; 69; 80; 45; 120; 70; 66; 45; 50; 53; 49; 49; 51; 52; 43; 55; 48; 55; 56; 45; 50; 57; 49; 50; 50; 52; 51; 45; 87; 88; 75; 69; 67; 47; 45].
Definition f12_b2 : bytes := [90; 67; 90; 67; 45; 67; 73; 86; 45; 67; 68; 87; 45; 50; 51; 55; 53; 51; 52; 45; 57; 53; 52; 53; 50; 53; 43; 51; 56; 48; 51; 45; 49; 51; 54; 50; 49; 52; 54; 45; 67; 48; 90; 66; 54; 53; 45].
Definition f12_b3 : bytes := [90; 67; 90; 67; 45; 67; 73; 86; 45; 78; 65; 84; 45; 56; 55; 50; 54; 52; 48; 43; 48; 50; 54; 57; 45; 51; 49; 53; 48; 57; 50; 51; 45; 49; 90; 74; 66; 57; 45].
Definition f12_chimera : bytes := [90; 67; 90; 67; 45; 67; 73; 86; 45; 74; 68; 86; 45; 50; 55; 51; 53; 51; 52; 43; 49; 48; 54; 57; 45; 51; 57; 49; 48; 48; 50; 51; 45; 51; 90; 74; 65; 49; 47; 45].

Example F12_three_different_headers_vote_to_a_fourth :
  match combine [f12_b1; f12_b2; f12_b3] with
  | Some (Ok (SOM h)) => h_text h = f12_chimera
  | _ => False
  end
  /\ f12_chimera <> f12_b1 /\ f12_chimera <> f12_b2 /\ f12_chimera <> f12_b3.
Proof. vm_compute. repeat split; discriminate. Qed.
