(** Byte-level primitives shared by every model file.
    Bytes are [N] with the side condition [b < 256] carried by theorems. *)
From Coq Require Export List NArith ZArith Bool Lia.
Export ListNotations.
Open Scope N_scope.

Definition byte := N.
Definition bytes := list N.

Definition not8 (b : N) : N := N.lxor b 255.
Definition mask7 (b : N) : N := N.land b 127.
Definition msb (b : N) : bool := N.testbit b 7.

Fixpoint popcount_pos (p : positive) : N :=
  match p with
  | xH => 1
  | xO q => popcount_pos q
  | xI q => 1 + popcount_pos q
  end.

(** [u8::count_ones] / [u32::count_ones] on the value as a natural number *)
Definition popcount (n : N) : N :=
  match n with N0 => 0 | Npos p => popcount_pos p end.

(** [u8::count_zeros] for a value below 256 *)
Definition count_zeros8 (n : N) : N := 8 - popcount n.

Definition b2n (b : bool) : N := if b then 1 else 0.

(** A three-valued result for Rust expressions that can panic *)
Inductive outcome (A : Type) : Type :=
| Done (a : A)
| Panic (site : N).
Arguments Done {A} a.
Arguments Panic {A} site.

Definition obind {A B} (o : outcome A) (f : A -> outcome B) : outcome B :=
  match o with Done a => f a | Panic s => Panic s end.

Definition is_byte (b : N) : bool := b <? 256.
Definition all_bytes (l : bytes) : bool := forallb is_byte l.

Fixpoint list_eqb (a b : bytes) : bool :=
  match a, b with
  | [], [] => true
  | x :: a', y :: b' => (x =? y) && list_eqb a' b'
  | _, _ => false
  end.

Fixpoint starts_with (pre s : bytes) : bool :=
  match pre, s with
  | [], _ => true
  | p :: pre', c :: s' => (p =? c) && starts_with pre' s'
  | _ :: _, [] => false
  end.
