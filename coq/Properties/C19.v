(** C19 — A misbehaving child never costs a message (control flow). *)
From Sameold Require Import Base.Bytes Model.Header Model.App Proofs.AppP.

(** Two finished runs on the same input — one with a child and ANY spawn oracle (every spawn
    failing, the first failing, none failing; what the child does with its input and how it exits
    are not even inputs of the model, because the code discards the write results and the exit
    status), the other with no child at all — print the same sequence of messages. *)
Theorem C19_printed_messages_do_not_depend_on_the_child :
  forall (RX sample : Type) (next_msg : RX -> list sample -> option message * RX * list sample)
         (flush : RX -> option message * RX),
  (forall rx inp rx' rest, next_msg rx inp = (None, rx', rest) -> rest = [] /\ next_msg rx' [] = (None, rx', [])) ->
  forall f1 f2 hc1 hc2 ok1 ok2 rx inp o1 o2,
  run RX sample next_msg flush f1 false hc1 ok1 rx inp = Some o1 ->
  run RX sample next_msg flush f2 false hc2 ok2 rx inp = Some o2 ->
  o_stdout _ o1 = o_stdout _ o2.
Proof. intros RX sample next_msg flush Hn. exact (stdout_independent_of_child RX sample next_msg flush Hn). Qed.
Print Assumptions C19_printed_messages_do_not_depend_on_the_child.

(** the same with the receiver MODEL plugged in (its iter_messages().next(), given enough calls,
    satisfies the iterator contract: None only when the source is exhausted and nothing is queued,
    and then idempotent); [pad] = the items the DSP makes of flush()'s zero padding *)
From Sameold Require Import Model.Receiver.
Theorem C19_samedec_over_the_receiver_model : forall c pad f1 f2 hc1 hc2 ok1 ok2 s inp o1 o2,
  run rx item (rxm_next c) (rxm_flush c pad) f1 false hc1 ok1 s inp = Some o1 ->
  run rx item (rxm_next c) (rxm_flush c pad) f2 false hc2 ok2 s inp = Some o2 ->
  o_stdout _ o1 = o_stdout _ o2.
Proof. exact samedec_over_receiver_stdout. Qed.
Print Assumptions C19_samedec_over_the_receiver_model.
