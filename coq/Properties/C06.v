(** C06 — Header parsing accepts exactly the SAME grammar and exposes fields faithfully. *)
From Sameold Require Import Base.Bytes Model.Header Proofs.HeaderP.

(** the matcher accepts only strings with a grammar decomposition, and reports the
    offsets of that decomposition; the stored text is exactly the matched prefix *)
Theorem C06_accept_sound : forall s ot n,
  check_header s = Some (ot, n) ->
  exists org evt groups tttt jjjhhmm call rest,
    Hdr s org evt groups tttt jjjhhmm call rest
    /\ ot = (12 + 7 * length groups)%nat
    /\ n = (ot + 14 + length call + 1)%nat
    /\ firstn n s = hdr_text org evt groups tttt jjjhhmm call
    /\ (forall k', (length call < k' <= 8)%nat -> call_ok (call ++ DASH :: rest) k' = false).
Proof. exact check_header_sound. Qed.
Print Assumptions C06_accept_sound.

(** every string with a grammar decomposition is accepted (callsign: longest admissible) *)
Theorem C06_accept_complete : forall s org evt groups tttt jjjhhmm call rest,
  Hdr s org evt groups tttt jjjhhmm call rest ->
  exists k' : nat, (length call <= k' <= 8)%nat /\
    check_header s = Some ((12 + 7 * length groups)%nat,
                           (12 + 7 * length groups + 14 + k' + 1)%nat).
Proof. exact check_header_complete. Qed.
Print Assumptions C06_accept_complete.

Theorem C06_reparse_stored_text : forall s h,
  header_new s = Ok h -> header_new (h_text h) = Ok h.
Proof. exact header_reparse. Qed.
Print Assumptions C06_reparse_stored_text.

Theorem C06_accessors_faithful_never_panic : forall s h,
  header_new s = Ok h ->
  exists org evt groups t1 t2 t3 t4 j1 j2 j3 j4 j5 j6 j7 call rest,
    Hdr s org evt groups [t1; t2; t3; t4] [j1; j2; j3; j4; j5; j6; j7] call rest
    /\ h_text h = hdr_text org evt groups [t1; t2; t3; t4] [j1; j2; j3; j4; j5; j6; j7] call
    /\ s = h_text h ++ rest
    /\ originator_str h = Done org
    /\ event_str h = Done evt
    /\ locations h = Done (map (@tl N) groups)
    /\ valid_duration_fields h = Done (dec [t1; t2], dec [t3; t4])
    /\ issue_daytime_fields h = Done (dec [j1; j2; j3], dec [j4; j5], dec [j6; j7])
    /\ callsign h = Done call.
Proof. exact header_new_faithful. Qed.
Print Assumptions C06_accessors_faithful_never_panic.

Theorem C06_non_ascii_rejected : forall s, is_ascii s = false -> header_new s = Err NotAscii.
Proof. exact header_new_non_ascii. Qed.
Print Assumptions C06_non_ascii_rejected.

Theorem C06_invalid_utf8_rejected : forall s e c,
  valid_utf8 s = false -> message_try_from_bytes s e c = Err NotAscii.
Proof. exact message_bytes_invalid_utf8. Qed.
Print Assumptions C06_invalid_utf8_rejected.

Theorem C06_message_prefix_dispatch : forall s,
  message_try_from_str s =
  if starts_with PREFIX_MESSAGE_START s then
    (if is_ascii s then
       match check_header s with
       | Some (ot, n) => Ok (SOM (mkHeader (firstn n s) ot 0 0))
       | None => Err Malformed
       end
     else Err NotAscii)
  else if starts_with PREFIX_EOM2 s then Ok EOM else Err UnrecognizedPrefix.
Proof. exact message_str_dispatch. Qed.
Print Assumptions C06_message_prefix_dispatch.

(** non-vacuity: a 2-location header with trailing bytes is accepted, truncated and decoded *)
Definition ex_hdr : bytes :=
  [90;67;90;67;45;79;82;71;45;69;69;69;45;48;49;50;51;52;53;45;53;54;55;56;57;48;43;48;48;48;48;45;
   48;48;48;49;49;50;50;45;78;79;67;65;76;76;48;48;45;103;97;114;98].
Example C06_nonvacuous :
  match header_new ex_hdr with
  | Ok h => length (h_text h) = 49%nat /\ callsign h = Done [78;79;67;65;76;76;48;48]
            /\ locations h = Done [[48;49;50;51;52;53]; [53;54;55;56;57;48]]
  | Err _ => False
  end.
Proof. vm_compute. repeat split. Qed.
