(** C08 — Bounded reporting delay: trailers at once, headers within the hold time (symbol time). *)
From Sameold Require Import Base.Bytes Model.Header Model.Combiner Model.Assembler
  Proofs.CombinerP Proofs.AssemblerP.

(** An EndOfMessage established by a burst is returned by the very [assemble] call that
    delivers the burst — unless a StartOfMessage is being held at that moment (known finding F2) *)
Theorem C08_eom_returned_by_establishing_call : forall s b now,
  b <> [] -> pend_not_eom (a_pending s) ->
  (forall p h, a_pending s = Some p -> t_data p <> Ok (SOM h)) ->
  deduplicate (prune_previous (a_previous s) now)
    (combine (map t_data (prune_history (a_history s) now
       ++ [mkTimed (firstn MAX_MESSAGE_LENGTH b) (now + MAX_HISTORY_DURATION)]))) = Some (Ok EOM) ->
  fst (asm_assemble s b now) = TMessage (Ok EOM).
Proof. exact eom_at_once. Qed.
Print Assumptions C08_eom_returned_by_establishing_call.

(** For EVERY history (monotone clock) from the initial state: the pending slot never holds an
    EndOfMessage between calls, and whatever it holds is due no later than 682 symbols after
    the last burst delivered *)
Theorem C08_hold_bounded_by_last_burst : forall ops,
  mono 0 ops -> PInv (snd (asm_run asm_init ops)) (last_burst 0 ops).
Proof. intros ops Hm. exact (run_PInv ops asm_init 0 0 PInv_init (N.le_refl 0) Hm). Qed.
Print Assumptions C08_hold_bounded_by_last_burst.

(** ... and the first idle poll at or after that instant returns it and empties the slot: a
    pending result is never held indefinitely once bursts stop arriving *)
Theorem C08_released_by_first_poll_after_hold : forall s last now p,
  PInv s last -> a_pending s = Some p -> last + MAX_INTERBURST_SYMBOLS <= now ->
  fst (asm_idle s now) = TMessage (t_data p) /\ a_pending (snd (asm_idle s now)) = None.
Proof. exact held_result_released. Qed.
Print Assumptions C08_released_by_first_poll_after_hold.

(** the report time of a header in the scenario family of C02 is exact: the first poll at or
    after 682 symbols after its last burst (see C02_header_two_of_three_any_third); and what a
    run of idle polls reports is the held result, once, at the first poll past its deadline *)
Theorem C08_idle_polls_report_exactly_at_deadline : forall polls s,
  msgs (fst (asm_run s (map OIdle polls))) =
  match a_pending s with
  | None => []
  | Some p =>
    match find (fun n => t_deadline p <=? n) polls with
    | Some tf => [(tf, t_data p)]
    | None => []
    end
  end.
Proof. exact polls_msgs. Qed.
Print Assumptions C08_idle_polls_report_exactly_at_deadline.

(** KNOWN FINDINGS: F3 — the same header six times: reported after the sixth burst;
    F2 — the EndOfMessage is never reported *)
Theorem C08_F3_refuted :
  report_kinds (fst (asm_run asm_init
    (tx_ops 1000 [(SEC,str_A);(SEC,str_A);(SEC,str_A);(SEC,str_A);(SEC,str_A);(SEC,str_A)] 800)))
  = [(7592, 1)].
Proof. exact F3_repeats_extend_the_hold. Qed.
Print Assumptions C08_F3_refuted.

Theorem C08_F2_refuted :
  report_kinds (fst (asm_run asm_init
    (tx_ops 1000 [(SEC,str_A);(SEC+SEC+(16+42)*8,str_A);(SEC,str_N);(SEC,str_N)] 6000)))
  = [(5318, 1)].
Proof. exact F2_eom_refused_while_som_pending. Qed.
Print Assumptions C08_F2_refuted.

(** * For the whole discrete receiver and all audio *)
From Sameold Require Import Model.Framer Model.Squelch Model.Receiver Proofs.ClockP.

(** in EVERY state the receiver can reach, on any item stream, the pending slot holds no EndOfMessage and
    whatever it holds is due at most MAX_INTERBURST_SYMBOLS after the last burst handed to the assembler *)
Theorem C08_receiver_hold_is_bounded : forall c src,
  PInv (r_asm (snd (run_core c core_init src))) (last_burst 0 (asm_calls c core_init src)).
Proof. exact receiver_hold_bounded. Qed.
Print Assumptions C08_receiver_hold_is_bounded.
