(** C11 — samedec prints exactly the decoded messages, one per line (control flow). *)
From Sameold Require Import Base.Bytes Model.Header Model.App Proofs.AppP.

(** For ANY receiver that behaves like an iterator over a borrowed source, any input, any child
    configuration and any spawn oracle: when samedec's loop finishes, what it printed is what the
    specification loop — take the next message, or at end of input flush; print it; repeat —
    produces.  [spec] never looks at the child. *)
Theorem C11_stdout_is_the_decoded_messages :
  forall (RX sample : Type) (next_msg : RX -> list sample -> option message * RX * list sample)
         (flush : RX -> option message * RX),
  (forall rx inp rx' rest, next_msg rx inp = (None, rx', rest) -> rest = [] /\ next_msg rx' [] = (None, rx', [])) ->
  forall fuel hc ok k pos rx inp ph o o1,
  app RX sample next_msg flush fuel false hc ok k pos rx inp ph o = Some o1 ->
  exists n, spec RX sample next_msg flush n rx inp ph (o_stdout _ o) = Some (o_stdout _ o1).
Proof. intros RX sample next_msg flush Hn. exact (stdout_is_spec RX sample next_msg flush Hn). Qed.
Print Assumptions C11_stdout_is_the_decoded_messages.

(** with --quiet nothing is printed *)
Theorem C11_quiet_prints_nothing :
  forall (RX sample : Type) next_msg flush fuel hc ok k pos rx inp ph o o1,
  app RX sample next_msg flush fuel true hc ok k pos rx inp ph o = Some o1 -> o_stdout _ o1 = o_stdout _ o.
Proof. exact quiet_prints_nothing. Qed.
Print Assumptions C11_quiet_prints_nothing.

(** the specification does not depend on how many calls it is given once it has finished *)
Theorem C11_spec_is_deterministic :
  forall (RX sample : Type) next_msg flush n rx inp ph acc r,
  spec RX sample next_msg flush n rx inp ph acc = Some r -> spec RX sample next_msg flush (S n) rx inp ph acc = Some r.
Proof. exact spec_mono. Qed.
Print Assumptions C11_spec_is_deterministic.

(** * The sample source: what samedec decodes does not depend on how the byte stream is cut into reads *)
From Sameold Require Import Model.Input Proofs.InputP.

(** for every state of the buffered reader and every sequence of (non-empty) [read()] results still to
    come, the iterator [from_fn(|| read_i16().ok())] yields exactly the samples of the remaining byte
    stream taken as a whole — two bytes per sample, a lone last byte ignored *)
Theorem C11_samples_do_not_depend_on_read_boundaries : forall fuel r,
  chunks_ok r -> all_samples fuel r = samples_of_bytes fuel (bytes_left r).
Proof. exact samples_independent_of_chunking. Qed.
Print Assumptions C11_samples_do_not_depend_on_read_boundaries.

Theorem C11_two_chunkings_same_samples : forall fuel chunks1 chunks2,
  Forall (fun c => c <> []) chunks1 -> Forall (fun c => c <> []) chunks2 -> concat chunks1 = concat chunks2 ->
  all_samples fuel (mkReader [] chunks1) = all_samples fuel (mkReader [] chunks2).
Proof. exact two_chunkings_same_samples. Qed.
Print Assumptions C11_two_chunkings_same_samples.

(** the iterator is fused in effect: after its first None every further call returns None, so the
    application's later [next()] calls (after a flush) cannot resurrect the input *)
Theorem C11_end_of_input_is_final : forall r r',
  chunks_ok r -> next_sample r = (None, r') -> exists r'', next_sample r' = (None, r'').
Proof. exact end_of_input_is_final. Qed.
Print Assumptions C11_end_of_input_is_final.
