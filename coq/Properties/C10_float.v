(** C10 -- the float components whose state outlives a burst: DC blocker and AGC, bit-exact in IEEE-754 binary32 (Flocq).
    A dependency of Properties/C10.v; every theorem is followed by its Print Assumptions, redirected to
    Properties/C10_float.<theorem>.out (read by the check on every run; rewritten whenever this file is recompiled). *)
From Coq Require Import ZArith List Bool.
From Flocq Require Import Core BinarySingleNaN.
From Sameold Require Import Model.ConfigSizes Model.FloatDsp Proofs.FloatDspP Proofs.AgcP.

(** DC blocker, from ANY state (NaN and infinities included): four window lengths of zero input return both moving
    averages to the window and the sum of a new filter *)
Theorem C10_dc_blocker_forgets_from_any_state : forall d len n,
  dwf d len -> inv_pos (m_inv (d_ff d)) -> (4 * len <= n)%nat ->
  dzero (dfeed d (zeros n)) /\ dwf (dfeed d (zeros n)) len.
Proof. exact dcb_forgets. Qed.
Redirect "Properties/C10_float.C10_dc_blocker_forgets_from_any_state" Print Assumptions C10_dc_blocker_forgets_from_any_state.

(** end to end: a new DC blocker (window of 1 .. 20 000 samples), ANY input history of ANY floats, then four window
    lengths of zero input: the filter IS a new filter (up to the phase of the refresh counter) and answers 0 with +0 *)
Theorem C10_dc_blocker_forgets_any_history : forall len xs n,
  (1 <= Z.of_nat len <= 20000)%Z -> (4 * len <= n)%nat ->
  let d := dfeed (dcb_new len) (xs ++ zeros n) in
  dzero d /\
  (exists k1 k2, d = mkDcb (mkMavg (m_win (mavg_new len)) (m_inv (mavg_new len)) (m_sum (mavg_new len)) k1)
                           (mkMavg (m_win (mavg_new len)) (m_inv (mavg_new len)) (m_sum (mavg_new len)) k2)) /\
  snd (dcb_filter d f0) = f0.
Proof. exact dcb_any_history_is_forgotten. Qed.
Redirect "Properties/C10_float.C10_dc_blocker_forgets_any_history" Print Assumptions C10_dc_blocker_forgets_any_history.

(** finding F13 (fixed): BEFORE the repair the running sum never forgot.  Sixteen samples of 2^20 and one of 2^20 + 1.5 into
    a 16-sample window leave the residue 0.5 in the sum; the filter then answers silence with 0.0547 for ever, where a new
    filter answers 0 (the audio-level witness makes the receiver permanently deaf, see DESIGN.md) *)
Theorem C10_F13_refuted_before_the_repair : forall n,
  dfeed_old drift_state (zeros n) = drift_state /\
  to_bits (snd (dcb_filter_old (dfeed_old drift_state (zeros n)) f0)) = 1029701632%Z /\
  snd (dcb_filter_old (dcb_new 16) f0) = f0.
Proof. exact dcb_old_never_forgets. Qed.
Redirect "Properties/C10_float.C10_F13_refuted_before_the_repair" Print Assumptions C10_F13_refuted_before_the_repair.

(** AGC: ANY sequence of samples (finite, |x| <= 2^20), lock / unlock / reset, with 0 <= min <= max <= 2^100 and a
    bandwidth in [0, 1]: the gain is finite and within its limits after every operation and every output is finite *)
Theorem C10_agc_gain_never_leaves_its_limits : forall a ops,
  agc_premises a = true -> forallb op_okb ops = true ->
  gain_okb (fst (agc_run a ops)) = true /\ forallb (fun y => is_finite y) (snd (agc_run a ops)) = true.
Proof. exact agc_never_leaves_its_limits_bool. Qed.
Redirect "Properties/C10_float.C10_agc_gain_never_leaves_its_limits" Print Assumptions C10_agc_gain_never_leaves_its_limits.

Theorem C10_agc_premises_are_met_by_the_default_and_the_recommended_limits :
  agc_premises agc_default = true /\ agc_premises agc_pcm16 = true /\
  sample_okb (of_bits 1233125376) = true /\ sample_okb (of_bits 3380609024) = true.
Proof. exact agc_premises_hold. Qed.
Redirect "Properties/C10_float.C10_agc_premises_are_met_by_the_default_and_the_recommended_limits" Print Assumptions C10_agc_premises_are_met_by_the_default_and_the_recommended_limits.

