(** C16 — Event, significance and originator decoding is total and matches the code table.
    Finite statements range over the tables regenerated from the built crate
    (Gen/Generated.v) and the hand-transcribed table (Spec/CodeTable.v). *)
From Sameold Require Import Base.Bytes Model.Header Model.Events Spec.CodeTable Proofs.EventsP.
From Sameold Require Gen.Generated.

Theorem C16_published_codes_decode :
  forallb (fun r => match r with (c, p, s) =>
     let e := event_from (s2b c) in list_eqb (fst e) (s2b p) && sig_eqb (snd e) s end)
    published = true /\ length published = 61%nat.
Proof. split; [exact published_codes_decode|reflexivity]. Qed.
Print Assumptions C16_published_codes_decode.

Theorem C16_published_codes_display :
  forallb (fun r => match r with (c, d) =>
     list_eqb (event_display (event_from (s2b c))) (s2b d) end)
    published_display = true.
Proof. exact published_codes_display. Qed.
Print Assumptions C16_published_codes_display.

(** any three-byte code whose last byte starts a character: table hit, else two-letter
    phenomenon + last-letter significance, else Unrecognized + last-letter significance *)
Theorem C16_fallback_by_last_letter : forall a b c,
  is_cont c = false ->
  event_from [a; b; c] =
  match lookup_three [a; b; c] with
  | Some r => r
  | None =>
    match lookup [a; b] Generated.CODEBOOK2 with
    | Some [p] => (p, sig_of_letter c)
    | _ => (UNRECOGNIZED, sig_of_letter c)
    end
  end.
Proof. exact event_from_three. Qed.
Print Assumptions C16_fallback_by_last_letter.

Theorem C16_multibyte_tail_is_unrecognized : forall a b c,
  is_cont c = true -> lookup_three [a; b; c] = None ->
  event_from [a; b; c] = (UNRECOGNIZED, Unknown).
Proof. exact event_from_three_nonboundary. Qed.
Print Assumptions C16_multibyte_tail_is_unrecognized.

Theorem C16_wrong_length_is_unrecognized : forall code,
  length code <> 3%nat -> event_from code = (UNRECOGNIZED, Unknown).
Proof. exact event_from_wrong_length. Qed.
Print Assumptions C16_wrong_length_is_unrecognized.

Theorem C16_display_no_placeholder :
  forallb (fun r => match r with
     | n :: _ => forallb (fun s =>
          let d := event_display (n, s) in
          negb (existsb (fun c => c =? PERCENT) d) && negb (match d with [] => true | _ => false end))
          all_sigs
     | [] => false end) Generated.PHENOMENA = true.
Proof. exact display_no_placeholder. Qed.
Print Assumptions C16_display_no_placeholder.

Theorem C16_lookups_return_known_phenomena :
  forallb (fun r => match r with [_; p; s] => match phen_row p, sig_of_name s with Some _, Some _ => true | _, _ => false end | _ => false end)
    Generated.CODEBOOK3
  && forallb (fun r => match r with [_; p] => match phen_row p with Some _ => true | None => false end | _ => false end)
    Generated.CODEBOOK2
  && match phen_row UNRECOGNIZED with Some _ => true | None => false end = true.
Proof. exact codebook_phenomena_known. Qed.
Print Assumptions C16_lookups_return_known_phenomena.

Theorem C16_significance_table :
  Generated.SIGNIFICANCE =
  map (fun r => match r with (s, code, disp, v) => [sig_name s; s2b code; s2b disp; [v]] end) significance_spec.
Proof. exact significance_table_matches. Qed.
Print Assumptions C16_significance_table.

Theorem C16_significance_order :
  sig_lt Test Statement /\ sig_lt Statement Emergency /\ sig_lt Emergency Watch
  /\ sig_lt Watch Warning /\ sig_lt Warning Unknown
  /\ map sig_as_u8 all_sigs = [0; 1; 2; 3; 4; 5]%N.
Proof. exact sig_order. Qed.
Print Assumptions C16_significance_order.

Theorem C16_significance_code_roundtrip : forall s, s <> Unknown -> sig_from (sig_code_str s) = s.
Proof. exact sig_code_roundtrip. Qed.
Print Assumptions C16_significance_code_roundtrip.

Theorem C16_class_consistent :
  forallb (fun r => match r with n :: _ =>
      implb (phen_is_national n) (negb (phen_is_weather n))
      && implb (phen_is_test n) (negb (phen_is_weather n)) | [] => false end) Generated.PHENOMENA
  && forallb (fun r => match r with [_; p; s] => implb (phen_is_test p) (list_eqb s (sig_name Test)) | _ => false end)
       Generated.CODEBOOK3 = true.
Proof. exact class_consistent. Qed.
Print Assumptions C16_class_consistent.

Theorem C16_is_test_iff : forall e,
  event_is_test e = true <-> snd e = Test \/ phen_is_test (fst e) = true.
Proof. exact event_is_test_iff. Qed.
Print Assumptions C16_is_test_iff.

Theorem C16_originator_three_char : forall org call,
  length org = 3%nat ->
  originator_from_org_and_call org call =
  let d := match lookup org originator_spec_tbl with Some [o] => o | _ => ORIG_UNKNOWN end in
  if list_eqb d ORIG_NWS && starts_with EC_PREFIX call then ORIG_EC else d.
Proof. exact originator_three. Qed.
Print Assumptions C16_originator_three_char.
