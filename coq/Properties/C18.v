(** C18 — reset() restores exactly the behaviour of a newly built receiver (structural half). *)
From Sameold Require Import Base.Bytes Model.ResetShape Proofs.ResetP.

(** For EVERY state with the receiver's shape — all 60 modelled fields arbitrary, including states
    no audio can reach — the statements of [SameReceiver::reset] and of the components' [reset]
    methods leave exactly what the constructor builds from the same configuration. *)
Theorem C18_reset_is_fresh :
  forall zero one int0 ffalse none empty idle_framer asm_empty no_carrier tr_idle enabled_feedback
         initial_gain alphabeta is_training x,
  shape_ok enabled_feedback is_training x ->
  receiver_reset zero one int0 ffalse none empty idle_framer asm_empty no_carrier tr_idle enabled_feedback
                 initial_gain alphabeta is_training x
  = fresh zero one int0 ffalse none empty idle_framer asm_empty no_carrier tr_idle enabled_feedback
          initial_gain alphabeta (config_of x).
Proof. exact reset_is_fresh. Qed.
Print Assumptions C18_reset_is_fresh.

(** hence every deterministic continuation (any step function, any audio) behaves identically *)
Theorem C18_same_behaviour :
  forall zero one int0 ffalse none empty idle_framer asm_empty no_carrier tr_idle enabled_feedback
         initial_gain alphabeta is_training (A B : Type) (run : receiver -> A -> B) x input,
  shape_ok enabled_feedback is_training x ->
  run (receiver_reset zero one int0 ffalse none empty idle_framer asm_empty no_carrier tr_idle enabled_feedback
                      initial_gain alphabeta is_training x) input
  = run (fresh zero one int0 ffalse none empty idle_framer asm_empty no_carrier tr_idle enabled_feedback
               initial_gain alphabeta (config_of x)) input.
Proof. intros. apply same_behaviour. assumption. Qed.
Print Assumptions C18_same_behaviour.

(** the hypothesis is met by every constructed receiver, whose configuration reads back *)
Theorem C18_constructor_establishes_shape :
  forall zero one int0 ffalse none empty idle_framer asm_empty no_carrier tr_idle enabled_feedback
         initial_gain alphabeta is_training p,
  shape_ok enabled_feedback is_training
    (fresh zero one int0 ffalse none empty idle_framer asm_empty no_carrier tr_idle enabled_feedback initial_gain alphabeta p)
  /\ config_of (fresh zero one int0 ffalse none empty idle_framer asm_empty no_carrier tr_idle enabled_feedback
                      initial_gain alphabeta p) = p.
Proof. intros. split; [apply fresh_shape|apply config_of_fresh]. Qed.
Print Assumptions C18_constructor_establishes_shape.

(** a reset of a new receiver changes nothing (and so reset is idempotent) *)
Theorem C18_reset_of_new_is_identity :
  forall zero one int0 ffalse none empty idle_framer asm_empty no_carrier tr_idle enabled_feedback
         initial_gain alphabeta is_training p,
  receiver_reset zero one int0 ffalse none empty idle_framer asm_empty no_carrier tr_idle enabled_feedback
                 initial_gain alphabeta is_training
    (fresh zero one int0 ffalse none empty idle_framer asm_empty no_carrier tr_idle enabled_feedback initial_gain alphabeta p)
  = fresh zero one int0 ffalse none empty idle_framer asm_empty no_carrier tr_idle enabled_feedback initial_gain alphabeta p.
Proof. exact reset_fresh. Qed.
Print Assumptions C18_reset_of_new_is_identity.

(** the two float components whose state outlives a burst, bit-exact (Flocq binary32): reset after ANY history = new *)
From Sameold Require Import Model.ConfigSizes Model.FloatDsp Proofs.FloatDspP.
Theorem C18_dc_blocker_reset_is_new : forall len xs, dcb_reset (dfeed (dcb_new len) xs) = dcb_new len.
Proof. exact dcb_reset_is_new. Qed.
Print Assumptions C18_dc_blocker_reset_is_new.

Theorem C18_agc_reset_is_new : forall bw lo hi ops, agc_reset (fst (agc_run (agc_new bw lo hi) ops)) = agc_new bw lo hi.
Proof. exact agc_reset_is_new. Qed.
Print Assumptions C18_agc_reset_is_new.

From Sameold Require Import Proofs.TimingP.
Theorem C18_timing_loop_reset_is_new : forall ins l, tloop_reset (fst (tloop_run l ins)) = tloop_reset l.
Proof. exact tloop_reset_is_new. Qed.
Print Assumptions C18_timing_loop_reset_is_new.
