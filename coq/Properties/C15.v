(** C15 — Issue time is reconstructed exactly from day-of-year and a rough receive time. *)
From Coq Require Import ZArith Bool.
From Sameold Require Import Model.IssueTime Proofs.IssueTimeP.
Open Scope Z_scope.

Theorem C15_issue_time_exact : forall yi oi h m yr or_,
  valid_yo yi oi -> valid_yo yr or_ ->
  0 <= h < 24 -> 0 <= m < 60 ->
  -90 <= day_number yr or_ - day_number yi oi <= 90 ->
  calculate_issue_time oi h m yr or_ = Some (day_number yi oi * 86400 + h * 3600 + m * 60).
Proof. exact issue_time_exact. Qed.
Print Assumptions C15_issue_time_exact.

Theorem C15_invalid_dates_error : forall doy h m yr or_,
  doy <= 0 \/ doy > year_len (inferred_year doy yr or_) \/ h < 0 \/ h >= 24 \/ m < 0 \/ m >= 60 ->
  calculate_issue_time doy h m yr or_ = None.
Proof. exact invalid_dates_error. Qed.
Print Assumptions C15_invalid_dates_error.

Theorem C15_answers_are_real_dates : forall doy h m yr or_ t,
  calculate_issue_time doy h m yr or_ = Some t ->
  let y := inferred_year doy yr or_ in
  valid_yo y doy /\ 0 <= h < 24 /\ 0 <= m < 60 /\ t = day_number y doy * 86400 + h * 3600 + m * 60.
Proof. exact issue_time_some_inv. Qed.
Print Assumptions C15_answers_are_real_dates.

Theorem C15_expired_iff : forall yi oi h m hrs mins yr or_ sod ns,
  valid_yo yi oi -> valid_yo yr or_ ->
  0 <= h < 24 -> 0 <= m < 60 ->
  -90 <= day_number yr or_ - day_number yi oi <= 90 ->
  0 <= ns ->
  let issue := day_number yi oi * 86400 + h * 3600 + m * 60 in
  let now_s := day_number yr or_ * 86400 + sod in
  is_expired_at oi h m hrs mins yr or_ sod ns = true
  <-> (issue + (hrs * 60 + mins) * 60 < now_s \/ (issue + (hrs * 60 + mins) * 60 = now_s /\ 0 < ns)).
Proof. exact expired_iff. Qed.
Print Assumptions C15_expired_iff.

Theorem C15_not_expired_without_issue_time : forall doy h m hrs mins yr or_ sod ns,
  calculate_issue_time doy h m yr or_ = None ->
  is_expired_at doy h m hrs mins yr or_ sod ns = false.
Proof. exact expired_false_when_no_issue_time. Qed.
Print Assumptions C15_not_expired_without_issue_time.

(** non-vacuity: 31 Dec of leap year 2020 (day 366) received on 2 Jan 2021; and day 366
    projected into the non-leap year 2021 is an error *)
Example C15_nonvacuous :
  valid_yo 2020 366 /\ valid_yo 2021 2
  /\ day_number 2021 2 - day_number 2020 366 = 2
  /\ calculate_issue_time 366 23 59 2021 2 = Some 1609459140
  /\ calculate_issue_time 366 0 0 2021 200 = None
  /\ day_number 1970 1 = 0.
Proof. repeat split; vm_compute; try reflexivity; intros; discriminate. Qed.
