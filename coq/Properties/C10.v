(** C10 — Arbitrary audio never crashes or wedges the receiver (discrete half). *)
From Sameold Require Import Base.Bytes Model.Header Model.Combiner Model.Framer Model.Squelch
  Model.Assembler Model.Receiver Proofs.EvidenceP Proofs.ClosureP Proofs.AssemblerP Proofs.ConfigP Proofs.RobustP.

(** the squelch invariant holds in every state reachable by ANY symbol stream (any bits, any
    power flags, any equaliser bytes): no byte clock => not locked; sample history not yet
    full => no byte clock; the power history never exceeds its capacity *)
Theorem C10_every_reachable_link_state_is_sane : forall c ts s f,
  sq_inv s -> sq_inv (fst (link_run c s f ts)).
Proof. exact reachable_inv. Qed.
Print Assumptions C10_every_reachable_link_state_is_sane.

(** NEVER LEFT DEAF: from any such state — mid-burst, locked, searching, whatever the framer
    holds — 32 symbols of silence (power below both thresholds; bits and equaliser output
    arbitrary) leave the squelch without byte clock and unlocked and the framer idle *)
Theorem C10_silence_returns_the_link_layer_to_idle : forall c ts t s f,
  sq_inv s -> Forall silent ts -> (31 <= length ts)%nat -> silent t ->
  let '(s', f') := link_run c s f (ts ++ [t]) in
  sq_clock s' = None /\ sq_lock s' = false /\ f' = FIdle /\ sq_inv s'.
Proof. exact silence_recovers. Qed.
Print Assumptions C10_silence_returns_the_link_layer_to_idle.

(** ... and in that configuration the sync gate is open to the next preamble *)
Theorem C10_recovered_squelch_can_synchronise : forall me s bit pc,
  sq_clock s = None -> sq_lock s = false -> sq_fill s = HISTORY_SYMBOLS ->
  num_bit_errors SYNC_WORD (N.lor (N.shiftr (sq_corr s) 1) (N.shiftl (b2n bit) 31)) <= me ->
  exists hb s', sq_input me s bit true pc = (SqReady true hb, s') /\ sq_clock s' = Some 1.
Proof. exact recovered_can_sync. Qed.
Print Assumptions C10_recovered_squelch_can_synchronise.

(** no burst is read forever (the busy period is bounded): every reported burst has at most
    MAX_BURST_LENGTH bytes, for every item stream *)
Theorem C10_no_burst_is_read_forever : forall c src,
  Forall event_bounded (fst (run_core c core_init src)).
Proof. exact every_burst_bounded. Qed.
Print Assumptions C10_no_burst_is_read_forever.

(** no panic site in the discrete receiver is reachable: the squelch's expect() ... *)
Theorem C10_squelch_expect_unreachable : forall me s bit po pc, fst (sq_input me s bit po pc) <> SqPanic.
Proof. exact squelch_never_panics. Qed.
Print Assumptions C10_squelch_expect_unreachable.

(** SAME AS A COLD START (assembler): once everything the hostile history left behind has expired
    and nothing is pending, every further history of bursts and polls is answered exactly as by
    a newly built assembler *)
Theorem C10_assembler_forgets : forall ops s now,
  stale s now -> mono now ops -> fst (asm_run s ops) = fst (asm_run asm_init ops).
Proof. exact stale_behaves_as_new. Qed.
Print Assumptions C10_assembler_forgets.

(** and inside the window, two intact copies of the new header outvote whatever single burst the
    hostile history left in the slot next to them (C03), for every content of that burst *)
Theorem C10_old_burst_is_outvoted : forall p H X h0,
  header_new H = Ok h0 -> h_text h0 = H -> forallb is_allowed_byte H = true ->
  (length H <= MAX_MESSAGE_LENGTH)%nat -> all_bytes X = true ->
  combine (Proofs.CombinerP.arr p H X) =
  Some (Ok (SOM (mkHeader H (h_offset_time h0) (Proofs.CombinerP.parity_spec H X) (Proofs.CombinerP.voting_spec H X)))).
Proof. exact Proofs.CombinerP.combine_two_good. Qed.
Print Assumptions C10_old_burst_is_outvoted.

(** * The whole discrete receiver: hostile audio has no lasting effect *)
From Sameold Require Import Proofs.ShiftP Proofs.QuiesceP Proofs.SilenceP.
Local Open Scope N_scope.

(** time-shift invariance, for EVERY state and EVERY item stream: adding [ds] to the sample counter and
    the forced end-of-message deadline, and [dy] to the symbol counter and to every deadline the
    assembler holds, changes nothing but the event timestamps (offset [ds]) *)
Theorem C10_receiver_is_time_shift_invariant : forall c ds dy k src,
  fst (run_core c (shift_core ds dy k) src) = map (shift_ev ds) (fst (run_core c k src)).
Proof. exact receiver_time_shift. Qed.
Print Assumptions C10_receiver_is_time_shift_invariant.

(** a quiesced state (link idle, nothing unexpired in the assembler, no timer armed), however it was
    reached, is observationally a new receiver: after the 32 symbols a new receiver needs to fill its
    correlator, ANY input gives the events of a new receiver, timestamps offset by the samples consumed *)
Theorem C10_quiesced_receiver_is_as_new : forall c k sil src,
  quiesced k -> length sil = 32%nat -> Forall silent sil ->
  fst (run_core c k (map Tick sil ++ src))
  = map (shift_ev (r_samples k)) (fst (run_core c core_init (map Tick sil ++ src))).
Proof. exact quiesced_receiver_is_as_new. Qed.
Print Assumptions C10_quiesced_receiver_is_as_new.

(** every state reachable from a new receiver by ANY input satisfies [RI] ... *)
Theorem C10_reachable_states_are_bounded : forall c src, RI (snd (run_core c core_init src)).
Proof. intros c src. apply reachable_RI, RI_init. Qed.
Print Assumptions C10_reachable_states_are_bounded.

(** ... and from every such state silence leads to a quiesced one: 32 symbols idle the link layer,
    MAX_INTERBURST + 1 + MAX_HISTORY (= 6335) more release and then expire everything the assembler
    holds; the only thing silence does not undo by itself is an armed 135 s timer (C09 resolves it) *)
Theorem C10_silence_quiesces : forall c k ts1 ts2 t,
  RI k -> Forall silent ts1 -> Forall silent ts2 -> silent t ->
  (32 <= length ts1)%nat -> MAX_INTERBURST_SYMBOLS + 1 + MAX_HISTORY_DURATION <= N.of_nat (length ts2) ->
  r_force_eom (snd (run_core c k (map Tick (ts1 ++ ts2)))) = None ->
  quiesced (snd (run_core c k (map Tick (ts1 ++ ts2 ++ [t])))).
Proof. exact silence_quiesces. Qed.
Print Assumptions C10_silence_quiesces.

(** end to end: whatever [hostile] input a new receiver has seen, after that much silence (no timer
    left armed) 32 further silent symbols and then ANY input produce exactly the events of a new
    receiver on the same input, timestamps offset by the samples consumed before *)
Theorem C10_hostile_audio_has_no_lasting_effect : forall c hostile ts1 ts2 t sil src,
  Forall silent ts1 -> Forall silent ts2 -> silent t ->
  (32 <= length ts1)%nat -> MAX_INTERBURST_SYMBOLS + 1 + MAX_HISTORY_DURATION <= N.of_nat (length ts2) ->
  r_force_eom (snd (run_core c core_init (hostile ++ map Tick (ts1 ++ ts2)))) = None ->
  length sil = 32%nat -> Forall silent sil ->
  let k := snd (run_core c core_init (hostile ++ map Tick (ts1 ++ ts2 ++ [t]))) in
  fst (run_core c k (map Tick sil ++ src))
  = map (shift_ev (r_samples k)) (fst (run_core c core_init (map Tick sil ++ src))).
Proof. exact hostile_audio_has_no_lasting_effect. Qed.
Print Assumptions C10_hostile_audio_has_no_lasting_effect.

(** the premises are met by a history that leaves the squelch synchronised and the framer searching *)
Theorem C10_no_lasting_effect_is_not_vacuous :
  (sq_clock (r_sq (snd (run_core example_cfg core_init hostile_example))) <> None
   /\ r_fr (snd (run_core example_cfg core_init hostile_example)) <> FIdle)
  /\ (let ts1 := repeat quiet_tick 32 in
      let ts2 := repeat quiet_tick (N.to_nat (MAX_INTERBURST_SYMBOLS + 1 + MAX_HISTORY_DURATION)) in
      Forall silent ts1 /\ Forall silent ts2 /\ silent quiet_tick
      /\ (32 <= length ts1)%nat /\ MAX_INTERBURST_SYMBOLS + 1 + MAX_HISTORY_DURATION <= N.of_nat (length ts2)
      /\ r_force_eom (snd (run_core example_cfg core_init (hostile_example ++ map Tick (ts1 ++ ts2)))) = None).
Proof. exact (conj hostile_example_is_not_calm no_lasting_effect_premises_hold). Qed.
Print Assumptions C10_no_lasting_effect_is_not_vacuous.

(** known finding F12 (model witness): the bit majority of three different header bursts — two earlier,
    complete, different headers still in the history and the first burst of a new transmission — is a
    text that none of them carried, and here it fits the header grammar, so it is accepted *)
From Sameold Require Import Proofs.ChimeraP.
Theorem C10_F12_refuted :
  match combine [f12_b1; f12_b2; f12_b3] with
  | Some (Ok (SOM h)) => h_text h = f12_chimera
  | _ => False
  end
  /\ f12_chimera <> f12_b1 /\ f12_chimera <> f12_b2 /\ f12_chimera <> f12_b3.
Proof. exact F12_three_different_headers_vote_to_a_fourth. Qed.
Print Assumptions C10_F12_refuted.

(** the float components whose state outlives a burst (DC blocker, AGC), bit-exact in IEEE-754 binary32: Properties/C10_float.v
    (compiled as a dependency; its Print Assumptions output is redirected to Properties/C10_float.*.out, which the check reads --
    printing the assumptions of the theorems that go through Flocq's real-number lemmas takes over a minute) *)
From Sameold Require Import Properties.C10_float Properties.C10_timing.
