(** C10 — Arbitrary audio never crashes or wedges the receiver (discrete half). *)
From Sameold Require Import Base.Bytes Model.Header Model.Combiner Model.Framer Model.Squelch
  Model.Assembler Model.Receiver Proofs.EvidenceP Proofs.ClosureP Proofs.AssemblerP Proofs.ConfigP Proofs.RobustP.

(** the squelch invariant holds in every state reachable by ANY symbol stream (any bits, any
    power flags, any equaliser bytes): no byte clock => not locked; sample history not yet
    full => no byte clock; the power history never exceeds its capacity *)
Theorem C10_every_reachable_link_state_is_sane : forall c ts s f,
  sq_inv s -> sq_inv (fst (link_run c s f ts)).
Proof. exact reachable_inv. Qed.
Print Assumptions C10_every_reachable_link_state_is_sane.

(** NEVER LEFT DEAF: from any such state — mid-burst, locked, searching, whatever the framer
    holds — 32 symbols of silence (power below both thresholds; bits and equaliser output
    arbitrary) leave the squelch without byte clock and unlocked and the framer idle *)
Theorem C10_silence_returns_the_link_layer_to_idle : forall c ts t s f,
  sq_inv s -> Forall silent ts -> (31 <= length ts)%nat -> silent t ->
  let '(s', f') := link_run c s f (ts ++ [t]) in
  sq_clock s' = None /\ sq_lock s' = false /\ f' = FIdle /\ sq_inv s'.
Proof. exact silence_recovers. Qed.
Print Assumptions C10_silence_returns_the_link_layer_to_idle.

(** ... and in that configuration the sync gate is open to the next preamble *)
Theorem C10_recovered_squelch_can_synchronise : forall me s bit pc,
  sq_clock s = None -> sq_lock s = false -> sq_fill s = HISTORY_SYMBOLS ->
  num_bit_errors SYNC_WORD (N.lor (N.shiftr (sq_corr s) 1) (N.shiftl (b2n bit) 31)) <= me ->
  exists hb s', sq_input me s bit true pc = (SqReady true hb, s') /\ sq_clock s' = Some 1.
Proof. exact recovered_can_sync. Qed.
Print Assumptions C10_recovered_squelch_can_synchronise.

(** no burst is read forever (the busy period is bounded): every reported burst has at most
    MAX_BURST_LENGTH bytes, for every item stream *)
Theorem C10_no_burst_is_read_forever : forall c src,
  Forall event_bounded (fst (run_core c core_init src)).
Proof. exact every_burst_bounded. Qed.
Print Assumptions C10_no_burst_is_read_forever.

(** no panic site in the discrete receiver is reachable: the squelch's expect() ... *)
Theorem C10_squelch_expect_unreachable : forall me s bit po pc, fst (sq_input me s bit po pc) <> SqPanic.
Proof. exact squelch_never_panics. Qed.
Print Assumptions C10_squelch_expect_unreachable.

(** SAME AS A COLD START (assembler): once everything the hostile history left behind has expired
    and nothing is pending, every further history of bursts and polls is answered exactly as by
    a newly built assembler *)
Theorem C10_assembler_forgets : forall ops s now,
  stale s now -> mono now ops -> fst (asm_run s ops) = fst (asm_run asm_init ops).
Proof. exact stale_behaves_as_new. Qed.
Print Assumptions C10_assembler_forgets.

(** and inside the window, two intact copies of the new header outvote whatever single burst the
    hostile history left in the slot next to them (C03), for every content of that burst *)
Theorem C10_old_burst_is_outvoted : forall p H X h0,
  header_new H = Ok h0 -> h_text h0 = H -> forallb is_allowed_byte H = true ->
  (length H <= MAX_MESSAGE_LENGTH)%nat -> all_bytes X = true ->
  combine (Proofs.CombinerP.arr p H X) =
  Some (Ok (SOM (mkHeader H (h_offset_time h0) (Proofs.CombinerP.parity_spec H X) (Proofs.CombinerP.voting_spec H X)))).
Proof. exact Proofs.CombinerP.combine_two_good. Qed.
Print Assumptions C10_old_burst_is_outvoted.
