(** C02 — placeholder until the assembler theorems land; replaced below. *)
From Sameold Require Import Base.Bytes.
