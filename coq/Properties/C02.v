(** C02 — Two of three bursts suffice; a single header burst never does.
    Statements about the assembler model over operation histories (burst arrivals and idle
    polls with symbolic times); only [exact] of lemmas proved in Proofs/AssemblerP.v. *)
From Sameold Require Import Base.Bytes Model.Header Model.Combiner Model.Assembler
  Proofs.CombinerP Proofs.AssemblerP Proofs.TransmissionP.

(** Two intact copies of a canonical header and ONE ARBITRARY burst (any bytes, any length)
    in ANY of the three positions; all times symbolic, inside the history window; polling
    between bursts two and three stops before the hold of burst two runs out.  Exactly one
    StartOfMessage, text [H], counters as in C03, released by the first idle poll at or after
    682 symbols after the third burst. *)
Theorem C02_header_two_of_three_any_third : forall p H X h0 prev0 t1 t2 t3 polls1 polls2 polls3,
  header_new H = Ok h0 -> h_text h0 = H -> forallb is_allowed_byte H = true ->
  (length H <= MAX_MESSAGE_LENGTH)%nat -> all_bytes X = true -> X <> [] ->
  nd h0 (prune_previous prev0 t1) ->
  t1 <= t2 -> t2 <= t3 -> t3 < t1 + MAX_HISTORY_DURATION ->
  Forall (fun n => n < t1 + MAX_HISTORY_DURATION) polls1 ->
  Forall (fun n => n < t2 + MAX_INTERBURST_SYMBOLS /\ n < t1 + MAX_HISTORY_DURATION) polls2 ->
  som_reports (fst (asm_run (mkAsm [] None prev0)
        (OBurst (nth_burst p H X 0) t1 :: map OIdle polls1
         ++ OBurst (nth_burst p H X 1) t2 :: map OIdle polls2
         ++ OBurst (nth_burst p H X 2) t3 :: map OIdle polls3)))
  = match find (fun n => t3 + MAX_INTERBURST_SYMBOLS <=? n) polls3 with
    | Some tf => [(tf, mkHeader H (h_offset_time h0) (parity_spec H (trunc X)) (voting_spec H (trunc X)))]
    | None => []
    end.
Proof. exact header_two_of_three. Qed.
Print Assumptions C02_header_two_of_three_any_third.

(** one of the three bursts lost altogether (any one: the two survivors may be 1 s or 2 s apart) *)
Theorem C02_header_two_bursts_only : forall H h0 prev0 t1 t2 polls1 polls2,
  header_new H = Ok h0 -> h_text h0 = H -> forallb is_allowed_byte H = true ->
  (length H <= MAX_MESSAGE_LENGTH)%nat -> nd h0 (prune_previous prev0 t1) ->
  t2 < t1 + MAX_HISTORY_DURATION ->
  Forall (fun n => n < t1 + MAX_HISTORY_DURATION) polls1 ->
  som_reports (fst (asm_run (mkAsm [] None prev0)
        (OBurst H t1 :: map OIdle polls1 ++ OBurst H t2 :: map OIdle polls2)))
  = match find (fun n => t2 + MAX_INTERBURST_SYMBOLS <=? n) polls2 with
    | Some tf => [(tf, mkHeader H (h_offset_time h0) (parity_spec H []) (voting_spec H []))]
    | None => []
    end.
Proof. exact header_two_bursts. Qed.
Print Assumptions C02_header_two_bursts_only.

(** the same for whatever the link layer delivered (junk after the header, bit errors), stated
    on what the bursts combine to: this is the form the correspondence runs instantiate *)
Theorem C02_three_bursts_abstract : forall prev0 b1 b2 b3 t1 t2 t3 polls1 polls2 polls3 h,
  b1 <> [] -> b2 <> [] -> b3 <> [] -> nd h (prune_previous prev0 t1) -> h_text h <> PREFIX_MESSAGE_END ->
  t2 < t1 + MAX_HISTORY_DURATION -> t3 < t1 + MAX_HISTORY_DURATION -> t1 <= t2 -> t2 <= t3 ->
  combine [trunc b1; trunc b2; trunc b3] = Some (Ok (SOM h)) ->
  votes_le [trunc b1; trunc b2] h ->
  Forall (fun n => n < t1 + MAX_HISTORY_DURATION) polls1 ->
  Forall (fun n => n < t2 + MAX_INTERBURST_SYMBOLS /\ n < t1 + MAX_HISTORY_DURATION) polls2 ->
  som_reports (fst (asm_run (mkAsm [] None prev0)
        (OBurst b1 t1 :: map OIdle polls1 ++ OBurst b2 t2 :: map OIdle polls2
           ++ OBurst b3 t3 :: map OIdle polls3)))
  = match find (fun n => t3 + MAX_INTERBURST_SYMBOLS <=? n) polls3 with
    | Some tf => [(tf, h)]
    | None => []
    end.
Proof. exact three_bursts_one_som. Qed.
Print Assumptions C02_three_bursts_abstract.

(** a header heard in ONE burst is never reported: any burst, any polling before and after *)
Theorem C02_single_burst_never_reported : forall prev0 b t polls1 polls2,
  som_reports (fst (asm_run (mkAsm [] None prev0)
     (map OIdle polls1 ++ OBurst b t :: map OIdle polls2))) = [].
Proof. exact one_burst_no_som. Qed.
Print Assumptions C02_single_burst_never_reported.

(** one, two or three bursts that all begin "NN" combine to an EndOfMessage (fast EOM from a
    single burst included) *)
Theorem C02_trailer_bursts_combine_to_eom : forall bs,
  (1 <= length bs <= 3)%nat -> Forall starts_NN bs -> combine bs = Some (Ok EOM).
Proof. exact combine_NN. Qed.
Print Assumptions C02_trailer_bursts_combine_to_eom.

(** the trailer on a quiet channel: exactly one message in the whole history, the
    EndOfMessage, returned by the call that delivers the FIRST burst *)
Theorem C02_trailer_exactly_one_eom : forall prev0 n1 n2 n3 t1 t2 t3 polls1 polls2 polls3,
  starts_NN n1 -> starts_NN n2 -> starts_NN n3 ->
  (forall now, is_not_duplicate (prune_previous prev0 now) EOM = true) ->
  t1 <= t2 -> t2 <= t3 -> t3 < t1 + MAX_HISTORY_DURATION ->
  Forall (fun n => n < t1 + MAX_HISTORY_DURATION) polls1 ->
  Forall (fun n => n < t1 + MAX_HISTORY_DURATION) polls2 ->
  msgs (fst (asm_run (mkAsm [] None prev0)
        (OBurst n1 t1 :: map OIdle polls1 ++ OBurst n2 t2 :: map OIdle polls2
           ++ OBurst n3 t3 :: map OIdle polls3)))
  = [(t1, Ok EOM)].
Proof. exact trailer_one_eom. Qed.
Print Assumptions C02_trailer_exactly_one_eom.


(** "... in particular for messages with no voice segment, whose trailer follows the header by one
    second": all six bursts received, the header's hold running out while the first trailer burst is
    being received.  Exactly one StartOfMessage (returned by the call that delivers the first trailer
    burst) and one EndOfMessage (returned by the call that delivers the second). With only TWO header
    bursts the same history loses the EndOfMessage: known finding F2 below. *)
Theorem C02_no_voice_gap_transmission :
  forall H h0 prev0 n1 n2 n3 t1 t2 t3 u1 u2 u3 polls1 polls2 pa polls4 polls5 polls6,
  header_new H = Ok h0 -> h_text h0 = H -> forallb is_allowed_byte H = true ->
  (length H <= MAX_MESSAGE_LENGTH)%nat -> nd h0 (prune_previous prev0 t1) ->
  starts_NN n1 -> starts_NN n2 -> starts_NN n3 -> all_bytes n1 = true -> (length n1 < length H)%nat ->
  t1 <= t2 -> t2 <= t3 -> t3 + MAX_INTERBURST_SYMBOLS <= u1 -> u1 <= u2 -> u2 <= u3 ->
  u3 < t2 + MAX_HISTORY_DURATION -> t3 < t1 + MAX_HISTORY_DURATION ->
  Forall (fun n => n < t1 + MAX_HISTORY_DURATION) polls1 ->
  Forall (fun n => n < t2 + MAX_INTERBURST_SYMBOLS /\ n < t1 + MAX_HISTORY_DURATION) polls2 ->
  Forall (fun n => n < t3 + MAX_INTERBURST_SYMBOLS /\ n < t2 + MAX_HISTORY_DURATION) pa ->
  Forall (fun n => n < t2 + MAX_HISTORY_DURATION) polls4 ->
  Forall (fun n => n < t2 + MAX_HISTORY_DURATION) polls5 ->
  msgs (fst (asm_run (mkAsm [] None prev0)
              (no_gap_ops H H H n1 n2 n3 t1 t2 t3 u1 u2 u3 polls1 polls2 pa polls4 polls5 polls6)))
  = [(u1, Ok (SOM (mkHeader H (h_offset_time h0) (parity_spec H H) (voting_spec H H)))); (u2, Ok EOM)].
Proof. exact clean_transmission_no_voice_gap. Qed.
Print Assumptions C02_no_voice_gap_transmission.

(** non-vacuity: a concrete canonical header meets the hypotheses; the ordinary six-burst
    transmission evaluates to one StartOfMessage and one EndOfMessage *)
Theorem C02_hypotheses_satisfiable :
  (exists h0, header_new str_A = Ok h0 /\ h_text h0 = str_A /\ forallb is_allowed_byte str_A = true
              /\ (length str_A <= MAX_MESSAGE_LENGTH)%nat)
  /\ report_kinds (fst (asm_run asm_init
       (tx_ops 1000 [(SEC,str_A);(SEC,str_A);(SEC,str_A);(1300,str_N);(SEC,str_N);(SEC,str_N)] 800)))
     = [(4637, 1); (6096, 3)].
Proof. exact (conj str_A_canonical normal_transmission). Qed.
Print Assumptions C02_hypotheses_satisfiable.

(** KNOWN FINDINGS — the full statement is false of the faithful model on these histories
    (each replayed on the implementation by the check):
    F2: header bursts 1 and 3 + trailer bursts 1 and 2, no voice gap: EndOfMessage never reported *)
Theorem C02_F2_refuted :
  report_kinds (fst (asm_run asm_init
    (tx_ops 1000 [(SEC,str_A);(SEC+SEC+(16+42)*8,str_A);(SEC,str_N);(SEC,str_N)] 6000)))
  = [(5318, 1)].
Proof. exact F2_eom_refused_while_som_pending. Qed.
Print Assumptions C02_F2_refuted.

(** F8: a second EndOfMessage from stale history *)
Theorem C02_F8_refuted :
  report_kinds (fst (asm_run asm_init
    (tx_ops 1000 [(SEC,str_N);(SEC,str_N);(SEC,str_N);(4272,str_B)] 800)))
  = [(1681, 3); (7779, 3)].
Proof. exact F8_second_eom_from_stale_history. Qed.
Print Assumptions C02_F8_refuted.

(** * Lossy transmissions: two header bursts are enough, two trailer bursts are enough *)
From Sameold Require Import Proofs.LossyP.

(** ANY two header bursts (contents symbolic: stated on what they combine to), the hold released by
    polling, then two ([third = false]) or three trailer bursts: exactly [SOM h; EOM] *)
Theorem C02_two_header_bursts_then_trailer :
  forall prev0 x y n1 n2 n3 h ta tb tf u1 u2 u3 polls1 pa pb polls4 polls5 polls6 third,
  x <> [] -> y <> [] -> n1 <> [] -> n2 <> [] -> n3 <> [] ->
  nd h (prune_previous prev0 ta) -> h_text h <> PREFIX_MESSAGE_END ->
  combine [trunc x] = None -> combine [trunc x; trunc y] = Some (Ok (SOM h)) ->
  dup_or_none h (combine [trunc x; trunc y; trunc n1]) ->
  combine [trunc y; trunc n1; trunc n2] = Some (Ok EOM) ->
  combine [trunc n1; trunc n2; trunc n3] = Some (Ok EOM) ->
  ta <= tb -> tb + MAX_INTERBURST_SYMBOLS <= tf -> tf <= u1 -> u1 <= u2 -> u2 <= u3 -> u3 < ta + MAX_HISTORY_DURATION ->
  Forall (fun n => n < ta + MAX_HISTORY_DURATION) polls1 ->
  Forall (fun n => n < tb + MAX_INTERBURST_SYMBOLS /\ n < ta + MAX_HISTORY_DURATION) pa ->
  Forall (fun n => n < ta + MAX_HISTORY_DURATION) pb ->
  Forall (fun n => n < ta + MAX_HISTORY_DURATION) polls4 ->
  Forall (fun n => n < ta + MAX_HISTORY_DURATION) polls5 ->
  msgs (fst (asm_run (mkAsm [] None prev0)
              (lossy_ops x y n1 n2 n3 ta tb tf u1 u2 u3 polls1 pa pb polls4 polls5 polls6 third)))
  = [(tf, Ok (SOM h)); (u2, Ok EOM)].
Proof. intros. apply lossy_transmission_exact; assumption. Qed.
Print Assumptions C02_two_header_bursts_then_trailer.

(** instance for every canonical header: whichever two of its three bursts were heard intact and
    whichever two or three trailer bursts (anything beginning NN) follow *)
Theorem C02_clean_lossy_transmission :
  forall H h0 prev0 n1 n2 n3 ta tb tf u1 u2 u3 polls1 pa pb polls4 polls5 polls6 third,
  header_new H = Ok h0 -> h_text h0 = H -> forallb is_allowed_byte H = true ->
  (length H <= MAX_MESSAGE_LENGTH)%nat -> nd h0 (prune_previous prev0 ta) ->
  starts_NN n1 -> starts_NN n2 -> starts_NN n3 -> all_bytes n1 = true ->
  ta <= tb -> tb + MAX_INTERBURST_SYMBOLS <= tf -> tf <= u1 -> u1 <= u2 -> u2 <= u3 -> u3 < ta + MAX_HISTORY_DURATION ->
  Forall (fun n => n < ta + MAX_HISTORY_DURATION) polls1 ->
  Forall (fun n => n < tb + MAX_INTERBURST_SYMBOLS /\ n < ta + MAX_HISTORY_DURATION) pa ->
  Forall (fun n => n < ta + MAX_HISTORY_DURATION) pb ->
  Forall (fun n => n < ta + MAX_HISTORY_DURATION) polls4 ->
  Forall (fun n => n < ta + MAX_HISTORY_DURATION) polls5 ->
  msgs (fst (asm_run (mkAsm [] None prev0)
              (lossy_ops H H n1 n2 n3 ta tb tf u1 u2 u3 polls1 pa pb polls4 polls5 polls6 third)))
  = [(tf, Ok (SOM (mkHeader H (h_offset_time h0) (parity_spec H []) (voting_spec H [])))); (u2, Ok EOM)].
Proof. exact clean_lossy_transmission. Qed.
Print Assumptions C02_clean_lossy_transmission.

(** three header bursts, only two trailer bursts *)
Theorem C02_three_headers_two_trailers :
  forall prev0 b1 b2 b3 n1 n2 h t1 t2 t3 tf u1 u2 polls1 polls2 pa pb polls4 polls5,
  b1 <> [] -> b2 <> [] -> b3 <> [] -> n1 <> [] -> n2 <> [] ->
  nd h (prune_previous prev0 t1) -> h_text h <> PREFIX_MESSAGE_END ->
  combine [trunc b1] = None -> combine [trunc b1; trunc b2] <> Some (Ok EOM) -> votes_le [trunc b1; trunc b2] h ->
  combine [trunc b1; trunc b2; trunc b3] = Some (Ok (SOM h)) ->
  dup_or_none h (combine [trunc b2; trunc b3; trunc n1]) ->
  combine [trunc b3; trunc n1; trunc n2] = Some (Ok EOM) ->
  t1 <= t2 -> t2 <= t3 -> t3 + MAX_INTERBURST_SYMBOLS <= tf -> tf <= u1 -> u1 <= u2 ->
  u2 < t2 + MAX_HISTORY_DURATION -> t3 < t1 + MAX_HISTORY_DURATION ->
  Forall (fun n => n < t1 + MAX_HISTORY_DURATION) polls1 ->
  Forall (fun n => n < t2 + MAX_INTERBURST_SYMBOLS /\ n < t1 + MAX_HISTORY_DURATION) polls2 ->
  Forall (fun n => n < t3 + MAX_INTERBURST_SYMBOLS /\ n < t2 + MAX_HISTORY_DURATION) pa ->
  Forall (fun n => n < t2 + MAX_HISTORY_DURATION) pb ->
  Forall (fun n => n < t2 + MAX_HISTORY_DURATION) polls4 ->
  Forall (fun n => n < t2 + MAX_HISTORY_DURATION) polls5 ->
  msgs (fst (asm_run (mkAsm [] None prev0)
              (three_two_ops b1 b2 b3 n1 n2 t1 t2 t3 tf u1 u2 polls1 polls2 pa pb polls4 polls5)))
  = [(tf, Ok (SOM h)); (u2, Ok EOM)].
Proof. intros. apply three_headers_two_trailers_exact; assumption. Qed.
Print Assumptions C02_three_headers_two_trailers.
