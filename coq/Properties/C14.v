(** C14 — No message is lost at end of input (discrete half). *)
From Sameold Require Import Base.Bytes Model.Header Model.Combiner Model.Framer Model.Squelch
  Model.Assembler Model.Receiver Proofs.ReceiverP Proofs.AssemblerP Proofs.FlushP.

(** [flush()] with enough [next()] calls returns the FIRST successfully decoded message among
    the events already queued followed by the events the zero padding produces; what remains
    queued / still to come is exactly what followed that message — so repeated calls return every
    pending message in order, and None once there is none *)
Theorem C14_flush_returns_first_message_and_keeps_the_rest : forall c fuel s src,
  let all := r_queue s ++ fst (run_core c (r_core s) src) in
  (length all < fuel)%nat ->
  let '(m, s', rest) := next_message fuel c s src in
  m = first_msg all
  /\ r_queue s' ++ fst (run_core c (r_core s') rest) = after_first_msg all.
Proof. exact next_message_spec. Qed.
Print Assumptions C14_flush_returns_first_message_and_keeps_the_rest.

(** On a quiet channel — carrier dropped (no byte clock), framer idle, power below the open
    threshold on every symbol — EVERY symbol polls the assembler, so a held message is delivered
    as an event once the symbol counter reaches its deadline: it suffices that the padding yields
    [deadline - now] symbols.  (That four seconds of zeros yield that many symbols after the
    carrier drops is the DSP half, sampled by the check.) *)
Theorem C14_quiet_symbols_release_the_held_message : forall c items k p m,
  sq_clock (r_sq k) = None -> r_fr k = FIdle -> r_force_eom k = None ->
  a_pending (r_asm k) = Some p -> t_data p = Ok m -> r_transport k <> TMessage (Ok m) ->
  Forall quiet_item items ->
  t_deadline p <= sq_symcount (r_sq k) + ticks_in items ->
  1 <= ticks_in items ->
  exists tm, In (msg_event m tm) (fst (run_core c k items)).
Proof. exact idle_ticks_release. Qed.
Print Assumptions C14_quiet_symbols_release_the_held_message.

(** the deadline is never more than 682 symbols after the last burst (C08), for every history *)
Theorem C14_hold_is_at_most_682_symbols : forall ops,
  mono 0 ops -> PInv (snd (asm_run asm_init ops)) (last_burst 0 ops).
Proof. intros ops Hm. exact (run_PInv ops asm_init 0 0 PInv_init (N.le_refl 0) Hm). Qed.
Print Assumptions C14_hold_is_at_most_682_symbols.
