(** C05 — Each transmission is reported once, in order; repeats suppressed only in-window. *)
From Sameold Require Import Base.Bytes Model.Header Model.Combiner Model.Assembler
  Proofs.CombinerP Proofs.AssemblerP Proofs.TransmissionP.

(** For EVERY history of burst arrivals and idle polls with a monotone symbol clock, from the
    initial state: two consecutive reports with the same text are at least
    MAX_HISTORY_DURATION (10.86 s) apart — [spaced] walks the list of Ok reports and compares
    each with the one before it. *)
Theorem C05_no_double_report_in_window : forall ops,
  mono 0 ops -> spaced None (ok_reports (fst (asm_run asm_init ops))).
Proof. exact no_double_report. Qed.
Print Assumptions C05_no_double_report_in_window.

(** the same from any state satisfying the invariant (so it composes over receiver resets
    and over any prefix history) *)
Theorem C05_no_double_report_from_any_reachable_state : forall ops s clock last,
  DInv s clock last -> mono clock ops -> spaced last (ok_reports (fst (asm_run s ops))).
Proof. exact run_spaced. Qed.
Print Assumptions C05_no_double_report_from_any_reachable_state.

(** the same header transmitted again after the window is reported again *)
Theorem C05_rereported_after_window : forall p H X h0 hprev treport t1 t2 t3 polls1 polls2 polls3,
  header_new H = Ok h0 -> h_text h0 = H -> forallb is_allowed_byte H = true ->
  (length H <= MAX_MESSAGE_LENGTH)%nat -> all_bytes X = true -> X <> [] ->
  h_text hprev = H -> treport + MAX_HISTORY_DURATION <= t1 ->
  t1 <= t2 -> t2 <= t3 -> t3 < t1 + MAX_HISTORY_DURATION ->
  Forall (fun n => n < t1 + MAX_HISTORY_DURATION) polls1 ->
  Forall (fun n => n < t2 + MAX_INTERBURST_SYMBOLS /\ n < t1 + MAX_HISTORY_DURATION) polls2 ->
  som_reports (fst (asm_run (mkAsm [] None (Some (mkTimed (SOM hprev) (treport + MAX_HISTORY_DURATION))))
        (OBurst (nth_burst p H X 0) t1 :: map OIdle polls1
         ++ OBurst (nth_burst p H X 1) t2 :: map OIdle polls2
         ++ OBurst (nth_burst p H X 2) t3 :: map OIdle polls3)))
  = match find (fun n => t3 + MAX_INTERBURST_SYMBOLS <=? n) polls3 with
    | Some tf => [(tf, mkHeader H (h_offset_time h0) (parity_spec H (trunc X)) (voting_spec H (trunc X)))]
    | None => []
    end.
Proof. exact header_rereported_after_window. Qed.
Print Assumptions C05_rereported_after_window.

(** one transmission, one StartOfMessage / one EndOfMessage: the scenario theorems of C02 give
    EXACTLY one report each (restated here for the trailer, whose three bursts each establish
    the EndOfMessage on their own) *)
Theorem C05_trailer_reported_once : forall prev0 n1 n2 n3 t1 t2 t3 polls1 polls2 polls3,
  starts_NN n1 -> starts_NN n2 -> starts_NN n3 ->
  (forall now, is_not_duplicate (prune_previous prev0 now) EOM = true) ->
  t1 <= t2 -> t2 <= t3 -> t3 < t1 + MAX_HISTORY_DURATION ->
  Forall (fun n => n < t1 + MAX_HISTORY_DURATION) polls1 ->
  Forall (fun n => n < t1 + MAX_HISTORY_DURATION) polls2 ->
  msgs (fst (asm_run (mkAsm [] None prev0)
        (OBurst n1 t1 :: map OIdle polls1 ++ OBurst n2 t2 :: map OIdle polls2
           ++ OBurst n3 t3 :: map OIdle polls3)))
  = [(t1, Ok EOM)].
Proof. exact trailer_one_eom. Qed.
Print Assumptions C05_trailer_reported_once.


(** In order: a second, different transmission after the first has been reported.  The history still
    holds the last two bursts [x], [y] of the first transmission and the duplicate record its header
    [ha] (alive throughout).  The first new burst votes with them to [ha] again or to nothing
    (suppressed), bursts two and three establish the new header [hb]: reported once, 682 symbols after
    the third burst — after [ha], which was reported before this history began.  (A new header that
    starts BEFORE the first one's hold has expired displaces it: known finding F1.) *)
Theorem C05_follow_on_transmission_reported_once_and_after :
  forall x y ha hb d b1 b2 b3 t1 t2 t3 polls1 polls2 polls3,
  b1 <> [] -> b2 <> [] -> b3 <> [] ->
  h_text ha <> h_text hb -> h_text hb <> PREFIX_MESSAGE_END ->
  t3 < t_deadline x -> t3 < t_deadline y -> t3 < d ->
  dup_or_none ha (combine [t_data x; t_data y; trunc b1]) ->
  votes_le [t_data y; trunc b1; trunc b2] hb ->
  combine [trunc b1; trunc b2; trunc b3] = Some (Ok (SOM hb)) ->
  t1 <= t2 -> t2 <= t3 -> t3 < t1 + MAX_HISTORY_DURATION ->
  Forall (fun n => n < t3) polls1 ->
  Forall (fun n => n < t2 + MAX_INTERBURST_SYMBOLS /\ n < t3) polls2 ->
  som_reports (fst (asm_run (mkAsm [x; y] None (Some (mkTimed (SOM ha) d)))
      (OBurst b1 t1 :: map OIdle polls1 ++ OBurst b2 t2 :: map OIdle polls2 ++ OBurst b3 t3 :: map OIdle polls3)))
  = match find (fun n => t3 + MAX_INTERBURST_SYMBOLS <=? n) polls3 with
    | Some tf => [(tf, hb)]
    | None => []
    end.
Proof. exact follow_on_reported_once. Qed.
Print Assumptions C05_follow_on_transmission_reported_once_and_after.

(** KNOWN FINDINGS (false of the faithful model; replayed on the implementation by the check):
    F1: a different header one second after the first: the first is never reported *)
Theorem C05_F1_refuted :
  report_kinds (fst (asm_run asm_init
    (tx_ops 1000 [(SEC,str_A);(SEC,str_A);(SEC,str_A);(SEC,str_B);(SEC,str_B);(SEC,str_B)] 800)))
  = [(7592, 2)].
Proof. exact F1_following_header_displaces_pending. Qed.
Print Assumptions C05_F1_refuted.

(** F8: one trailer, two EndOfMessage reports (the second 6098 symbols after the first, i.e.
    outside the window, so it does not contradict the invariant above) *)
Theorem C05_F8_refuted :
  report_kinds (fst (asm_run asm_init
    (tx_ops 1000 [(SEC,str_N);(SEC,str_N);(SEC,str_N);(4272,str_B)] 800)))
  = [(1681, 3); (7779, 3)].
Proof. exact F8_second_eom_from_stale_history. Qed.
Print Assumptions C05_F8_refuted.

(** * The assembler inside the receiver: the history theorems apply to the whole discrete receiver *)
From Sameold Require Import Model.Framer Model.Squelch Model.Receiver Proofs.ClockP.

(** for EVERY item stream (= all audio, whatever the DSP makes of it) the receiver's assembler state is
    exactly the assembler run over the calls the receiver made ... *)
Theorem C05_receiver_assembler_is_the_history_run : forall c src k,
  r_asm (snd (run_core c k src)) = snd (asm_run (r_asm k) (asm_calls c k src)).
Proof. exact receiver_assembler_refines. Qed.
Print Assumptions C05_receiver_assembler_is_the_history_run.

(** ... and the clock of those calls (the squelch's symbol counter) never runs backwards *)
Theorem C05_receiver_clock_never_runs_backwards : forall c src k,
  mono (sq_symcount (r_sq k)) (asm_calls c k src).
Proof. exact receiver_clock_is_monotone. Qed.
Print Assumptions C05_receiver_clock_never_runs_backwards.

(** hence, for all audio: two consecutive reports of the receiver's assembler with equal text are at
    least MAX_HISTORY_DURATION symbols apart *)
Theorem C05_receiver_no_double_report_in_window : forall c src,
  spaced None (ok_reports (fst (asm_run asm_init (asm_calls c core_init src)))).
Proof. exact receiver_no_double_report. Qed.
Print Assumptions C05_receiver_no_double_report_in_window.
