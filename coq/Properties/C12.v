(** C12 — Child processes get the right environment and the exact message audio (control flow + environment function). *)
From Sameold Require Import Base.Bytes Model.Header Model.Events Model.IssueTime Model.App
  Proofs.HeaderP Proofs.AppP Proofs.EnvP.

(** exactly one spawn attempt per printed StartOfMessage, in the same order *)
Theorem C12_one_spawn_per_start_of_message :
  forall (RX sample : Type) next_msg flush fuel ok k pos rx inp ph o o1,
  app RX sample next_msg flush fuel false true ok k pos rx inp ph o = Some o1 ->
  map (sp_header sample) (o_spawns _ o) = soms_of (o_stdout _ o) ->
  map (sp_header sample) (o_spawns _ o1) = soms_of (o_stdout _ o1).
Proof. exact one_spawn_per_som. Qed.
Print Assumptions C12_one_spawn_per_start_of_message.

(** every child's standard input is a contiguous run of the original input: it starts at the
    number of samples consumed when its StartOfMessage was returned and runs up to and including
    the sample that completed the next message (or the end of input) *)
Theorem C12_child_audio_is_a_contiguous_run_of_the_input :
  forall (RX sample : Type) (next_msg : RX -> list sample -> option message * RX * list sample) flush,
  (forall rx inp m rx' rest, next_msg rx inp = (m, rx', rest) -> exists c, inp = c ++ rest) ->
  forall fuel q hc ok k pos rx inp ph o o1 inp0,
  app RX sample next_msg flush fuel q hc ok k pos rx inp ph o = Some o1 ->
  inp = skipn pos inp0 -> (pos <= length inp0)%nat ->
  Forall (child_ok sample inp0) (o_spawns _ o) ->
  Forall (child_ok sample inp0) (o_spawns _ o1).
Proof. intros RX sample next_msg flush Hs. exact (child_audio_contiguous RX sample next_msg flush Hs). Qed.
Print Assumptions C12_child_audio_is_a_contiguous_run_of_the_input.

(** the receiver model's [iter_messages.next()] is such a transducer *)
Theorem C12_receiver_model_consumes_a_prefix :
  forall c fuel s inp m s' rest, rx_next c fuel s inp = (m, s', rest) -> exists cs, inp = cs ++ rest.
Proof. exact rx_next_suffix. Qed.
Print Assumptions C12_receiver_model_consumes_a_prefix.

(** the environment: total on every accepted header (no accessor panics), each variable the
    corresponding grammar component, PURGETIME - ISSUETIME = the validity duration whenever the
    issue time is computable and both empty otherwise *)
Theorem C12_environment_restates_the_header :
  forall s h rate y d,
  header_new s = Ok h ->
  exists org evt groups t1 t2 t3 t4 j1 j2 j3 j4 j5 j6 j7 call rest e,
    Hdr s org evt groups [t1; t2; t3; t4] [j1; j2; j3; j4; j5; j6; j7] call rest
    /\ build_env h rate y d = Done e
    /\ env_rate e = rate /\ env_msg e = h_text h /\ env_org e = org /\ env_evt e = evt
    /\ env_originator e = originator_display (originator_from_org_and_call org call)
    /\ env_event e = event_display (event_from evt)
    /\ env_significance e = sig_code_str (snd (event_from evt))
    /\ env_sig_num e = decimal_N (sig_as_u8 (snd (event_from evt)))
    /\ env_locations e = join_with SPACE (map (@tl N) groups)
    /\ match calculate_issue_time (Z.of_N (dec [j1; j2; j3])) (Z.of_N (dec [j4; j5])) (Z.of_N (dec [j6; j7])) y d with
       | Some t => env_issuetime e = decimal_Z t
                   /\ env_purgetime e = decimal_Z (t + (Z.of_N (dec [t1; t2]) * 3600 + Z.of_N (dec [t3; t4]) * 60))%Z
       | None => env_issuetime e = [] /\ env_purgetime e = []
       end.
Proof. exact env_total_and_faithful. Qed.
Print Assumptions C12_environment_restates_the_header.

(** the locations can be read back from the space-separated variable *)
Theorem C12_locations_recoverable : forall l : list bytes,
  l <> [] -> Forall (fun x => forallb (fun c => negb (N.eqb c SPACE)) x = true) l ->
  split_on SPACE [] (join_with SPACE l) = l.
Proof. exact locations_recoverable. Qed.
Print Assumptions C12_locations_recoverable.

(** the audio theorem with the receiver model plugged in *)
From Sameold Require Import Model.Receiver.
Theorem C12_child_audio_over_the_receiver_model : forall c pad fuel q hc ok k pos s inp ph o o1 inp0,
  app rx item (rxm_next c) (rxm_flush c pad) fuel q hc ok k pos s inp ph o = Some o1 ->
  inp = skipn pos inp0 -> (pos <= length inp0)%nat ->
  Forall (child_ok item inp0) (o_spawns _ o) ->
  Forall (child_ok item inp0) (o_spawns _ o1).
Proof. exact samedec_over_receiver_audio. Qed.
Print Assumptions C12_child_audio_over_the_receiver_model.
