(** C07 — Bursts are byte-aligned and contain the received bytes unmodified (byte level). *)
From Sameold Require Import Base.Bytes Model.Header Model.Combiner Model.Framer Proofs.FramerP.

(** for every session (bytes [ds] delivered after a restart, any budgets): every burst
    emitted is a contiguous run of the zero-padded input, in order and unmodified; it starts
    at the FIRST window within the prefix budget; it ends either at the maximum length or
    just before the byte that takes the invalid-character count above its budget *)
Theorem C07_burst_is_slice_from_first_match : forall c ds ls s',
  framer_steps c (FPrefixSearch ZERO_WORD 0) ds = (ls, s') ->
  FInv c (ZERO_WORD ++ ds) s' /\
  forall j l, nth_error ls j = Some l -> burst_ok c (ZERO_WORD ++ firstn (S j) ds) l.
Proof. intros c ds ls s' E. exact (framer_session c ds ZERO_WORD _ ls s' (FInv_restart c) E). Qed.
Print Assumptions C07_burst_is_slice_from_first_match.

Theorem C07_one_burst_per_session : forall c ds s ls s' j b,
  framer_steps c s ds = (ls, s') -> nth_error ls j = Some (LBurst b) ->
  forall k l, (j < k)%nat -> nth_error ls k = Some l -> l = LNoCarrier.
Proof. exact framer_one_burst_per_session. Qed.
Print Assumptions C07_one_burst_per_session.

Theorem C07_abandon_after_search_length : forall c ds d,
  N.of_nat (length ds) = PREFIX_SEARCH_LEN ->
  nomatch c (ZERO_WORD ++ ds ++ [d]) (4 + length ds + 1) ->
  framer_steps c (FPrefixSearch ZERO_WORD 0) (ds ++ [d])
  = (map (fun _ => LSearching) ds ++ [LNoCarrier], FIdle).
Proof. exact framer_abandon. Qed.
Print Assumptions C07_abandon_after_search_length.

Theorem C07_no_zero_padding_after_training : forall c ds,
  max_prefix_bit_errors c <= 7 -> nomatch c (ZERO_WORD ++ PRE4 ++ ds) 8.
Proof. exact no_padding_after_training. Qed.
Print Assumptions C07_no_zero_padding_after_training.

(** non-vacuity: a 5-byte burst after four preamble bytes, ended by two invalid bytes at budget 1 *)
Example C07_nonvacuous :
  framer_steps (mkFcfg 2 1) (FPrefixSearch ZERO_WORD 0) [171;171;171;171;90;67;90;67;45;0;65;0]
  = ([LSearching;LSearching;LSearching;LSearching;LSearching;LSearching;LSearching;LReading;
      LReading;LReading;LReading;LBurst [90;67;90;67;45;0;65]], FIdle).
Proof. vm_compute. reflexivity. Qed.

(** Bit level.  The correlator register is the last 32 bits; on a clean header or trailer burst
    (eight or more preamble bytes, then ZCZC- / NNNN) every position that is not a byte boundary is
    at least 7 bit errors from the sync word, so with a preamble budget of at most 6 (default 2,
    samedec 0..5) the squelch cannot (re)synchronise off a byte boundary, whatever its other state *)
From Sameold Require Import Model.Squelch Proofs.SyncWordP.
Theorem C07_sync_word_ambiguity :
  map (errs (PRE8 ++ START)) (seq 32 9) = [0; 24; 8; 24; 8; 24; 8; 24; 0].
Proof. exact ambiguity_in_preamble. Qed.
Print Assumptions C07_sync_word_ambiguity.

Theorem C07_no_misaligned_sync_on_a_header_burst : forall me s t po pc hb s',
  me <= 6 -> (32 <= t < 96)%nat -> (S t mod 8 <> 0)%nat ->
  sq_corr s = corr_after (PRE8 ++ START) t ->
  sq_input me s (bit_of (PRE8 ++ START) t) po pc <> (SqReady true hb, s').
Proof. exact no_misaligned_sync_start. Qed.
Print Assumptions C07_no_misaligned_sync_on_a_header_burst.

Theorem C07_no_misaligned_sync_on_a_trailer_burst : forall me s t po pc hb s',
  me <= 6 -> (32 <= t < 96)%nat -> (S t mod 8 <> 0)%nat ->
  sq_corr s = corr_after (PRE8 ++ ENDM ++ [32]) t ->
  sq_input me s (bit_of (PRE8 ++ ENDM ++ [32]) t) po pc <> (SqReady true hb, s').
Proof. exact no_misaligned_sync_end. Qed.
Print Assumptions C07_no_misaligned_sync_on_a_trailer_burst.

(** the bound is tight: at budget 7 a re-synchronisation two bits into the first data byte is possible *)
Theorem C07_budget_seven_is_too_much : errs (PRE8 ++ START) 66 = 7 /\ errs (PRE8 ++ ENDM ++ [32]) 66 = 7.
Proof. exact budget_seven_is_too_much. Qed.
Print Assumptions C07_budget_seven_is_too_much.

(** * The squelch's 32-symbol delay line: the byte output and the carrier-loss decision are aligned *)
From Sameold Require Import Model.Squelch Proofs.RobustP Proofs.QuiesceP Proofs.DelayLineP.

(** from a new squelch, after ANY symbols (any bits, any power flags, whatever it output on the way):
    the correlator word and the power history hold exactly the last (at most 32) symbols, in step *)
Theorem C07_squelch_holds_the_last_32_symbols : forall me ts,
  paligned (feed me sq_init ts) (line_of [] ts) /\ sq_inv (feed me sq_init ts).
Proof. intros me ts. apply squelch_line_invariant; [apply sq_init_inv|apply paligned_init]. Qed.
Print Assumptions C07_squelch_holds_the_last_32_symbols.

(** the byte handed to the framer is the OLDEST eight symbols of the line, least significant bit first:
    received bits reach the framer in order, none skipped, none repeated *)
Theorem C07_output_byte_is_the_oldest_eight_symbols : forall me s g bit po pc r hb s',
  aligned s g -> sq_input me s bit po pc = (SqReady r hb, s') ->
  (hb < 256)%N /\ forall i, (i < 8)%nat -> N.testbit hb (N.of_nat i) = fst (nth i (shift_in g (bit, pc)) (false, false)).
Proof. exact ready_byte_is_oldest_eight. Qed.
Print Assumptions C07_output_byte_is_the_oldest_eight_symbols.

(** carrier loss is decided on the power flag recorded with the oldest symbol of the line — the first
    symbol of the byte due next: data received with power is never cut off, and the burst ends with the
    first symbol received without *)
Theorem C07_carrier_loss_is_decided_on_the_oldest_symbol : forall me s g bit po pc c,
  aligned s g -> sq_clock s = Some c ->
  negb (sq_lock s) && (num_bit_errors SYNC_WORD (push_bit (sq_corr s) bit) <=? me)%N && po = false ->
  (fst (sq_input me s bit po pc) = SqDropped <-> snd (nth 0 (shift_in g (bit, pc)) (false, false)) = false).
Proof. exact drop_decided_on_oldest_symbol. Qed.
Print Assumptions C07_carrier_loss_is_decided_on_the_oldest_symbol.

(** with the sync locked (the framer is reading), the byte clock running and power recorded with the oldest
    symbol of the line, one symbol gives: a byte — the oldest eight symbols, LSb first — when the clock is at
    0, "reading" otherwise; the clock advances modulo 8, the lock and the alignment are kept *)
Theorem C07_locked_squelch_step : forall me s g bit po pc c,
  aligned s g -> sq_lock s = true -> sq_clock s = Some c -> (c < 8)%N ->
  front_power g (bit, pc) = true ->
  exists hb s',
    sq_input me s bit po pc = ((if (c =? 0)%N then SqReady false hb else SqReading), s')
    /\ sq_clock s' = Some ((c + 1) mod 8)%N /\ sq_lock s' = true /\ aligned s' (shift_in g (bit, pc))
    /\ (c = 0%N -> (hb < 256)%N /\ forall i, (i < 8)%nat -> N.testbit hb (N.of_nat i) = fst (nth i (shift_in g (bit, pc)) (false, false))).
Proof. exact locked_step. Qed.
Print Assumptions C07_locked_squelch_step.

(** hence over any number of symbols: exactly one byte every eight symbols, each the next eight symbols of the
    bit stream — the bytes handed to the framer tile the received bits, none skipped, none overlapping *)
Theorem C07_one_byte_every_eight_symbols : forall me (xs : list (bool * bool * bool)) s g c,
  aligned s g -> sq_lock s = true -> sq_clock s = Some c -> (c < 8)%N ->
  Forall (fun gl => snd (nth 0 gl (false, false)) = true) (lines_after g (map (fun t => (fst (fst t), snd t)) xs)) ->
  sq_lock (feed me s xs) = true /\ sq_clock (feed me s xs) = Some ((c + N.of_nat (length xs)) mod 8)%N
  /\ aligned (feed me s xs) (fold_left (fun g t => shift_in g (fst (fst t), snd t)) xs g).
Proof. exact one_byte_every_eight_symbols. Qed.
Print Assumptions C07_one_byte_every_eight_symbols.

(** * Ticks to bytes: while a burst is read the framer is called exactly once per eight symbols *)
From Sameold Require Import Model.Receiver Proofs.LinkReadP.

(** eight symbols from a byte boundary (sync locked, power recorded with the oldest symbols): ONE call of
    the framer, with the equaliser byte of the first of them; the seven others leave the framer alone; and a
    byte boundary again — so the burst is the sequence of equaliser bytes at the byte-clock instants, in
    order, none dropped, none invented *)
Theorem C07_eight_symbols_one_framer_step : forall c s g msg inv t ts,
  aligned s g -> sq_lock s = true -> sq_clock s = Some 0%N ->
  length ts = 7%nat ->
  Forall (fun gl => snd (nth 0 gl (false, false)) = true)
         (lines_after g (map (fun t => (t_bit t, t_pclose t)) (t :: ts))) ->
  fst (framer_step (fc c) (FDataRead msg inv) (t_eq t)) = LReading ->
  let '(s', f') := link_run c s (FDataRead msg inv) (t :: ts) in
  f' = snd (framer_step (fc c) (FDataRead msg inv) (t_eq t))
  /\ sq_lock s' = true /\ sq_clock s' = Some 0%N
  /\ aligned s' (fold_left (fun g t => shift_in g (t_bit t, t_pclose t)) (t :: ts) g).
Proof. exact eight_symbols_one_framer_step. Qed.
Print Assumptions C07_eight_symbols_one_framer_step.

(** acquisition: unsynchronised and unlocked, power above the open threshold — at the symbol that completes
    the sync word in the delay line the squelch declares sync, the byte clock starts there (so every later
    byte boundary is a byte boundary of the transmission), and the byte handed on is the sync word's oldest *)
Theorem C07_sync_at_the_symbol_completing_the_sync_word : forall me s g bit pc,
  aligned s g -> sq_lock s = false -> sq_clock s = None ->
  (forall i, (i < 32)%nat -> fst (nth i (shift_in g (bit, pc)) (false, false)) = N.testbit SYNC_WORD (N.of_nat i)) ->
  exists s', sq_input me s bit true pc = (SqReady true (SYNC_WORD mod 256)%N, s') /\ sq_clock s' = Some 1%N
             /\ aligned s' (shift_in g (bit, pc)).
Proof. exact sync_at_the_symbol_completing_the_sync_word. Qed.
Print Assumptions C07_sync_at_the_symbol_completing_the_sync_word.
