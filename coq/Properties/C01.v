(** C01 — Complete SAME transmissions decode exactly (discrete half; the DSP half is sampled). *)
From Sameold Require Import Base.Bytes Model.Header Model.Combiner Model.Assembler
  Proofs.CombinerP Proofs.AssemblerP Proofs.TransmissionP.

(** Whatever the link layer delivered for the six bursts (any junk after the data, any bit
    errors), provided the bursts combine as a complete transmission does (C1..C6), with all times
    symbolic inside the protocol's intervals (bursts in order; polling between header bursts
    stops before the hold of the previous one runs out; the hold of the third header burst runs
    out at poll [tf] before the trailer; everything inside the history window):
    the whole history reports EXACTLY two messages, the StartOfMessage at [tf] and the
    EndOfMessage in the call delivering the second trailer burst. *)
Theorem C01_transmission_exact_abstract :
  forall prev0 b1 b2 b3 n1 n2 n3 h t1 t2 t3 u1 u2 u3 tf polls1 polls2 pa pb polls4 polls5 polls6,
  b1 <> [] -> b2 <> [] -> b3 <> [] -> n1 <> [] -> n2 <> [] -> n3 <> [] ->
  nd h (prune_previous prev0 t1) -> h_text h <> PREFIX_MESSAGE_END ->
  combine [trunc b1] = None ->
  combine [trunc b1; trunc b2] <> Some (Ok EOM) ->
  votes_le [trunc b1; trunc b2] h ->
  combine [trunc b1; trunc b2; trunc b3] = Some (Ok (SOM h)) ->
  dup_or_none h (combine [trunc b2; trunc b3; trunc n1]) ->
  combine [trunc b3; trunc n1; trunc n2] = Some (Ok EOM) ->
  combine [trunc n1; trunc n2; trunc n3] = Some (Ok EOM) ->
  t1 <= t2 -> t2 <= t3 -> t3 + MAX_INTERBURST_SYMBOLS <= tf -> tf <= u1 -> u1 <= u2 -> u2 <= u3 ->
  u3 < t2 + MAX_HISTORY_DURATION -> t3 < t1 + MAX_HISTORY_DURATION ->
  Forall (fun n => n < t1 + MAX_HISTORY_DURATION) polls1 ->
  Forall (fun n => n < t2 + MAX_INTERBURST_SYMBOLS /\ n < t1 + MAX_HISTORY_DURATION) polls2 ->
  Forall (fun n => n < t3 + MAX_INTERBURST_SYMBOLS /\ n < t2 + MAX_HISTORY_DURATION) pa ->
  Forall (fun n => n < t2 + MAX_HISTORY_DURATION) pb ->
  Forall (fun n => n < t2 + MAX_HISTORY_DURATION) polls4 ->
  Forall (fun n => n < t2 + MAX_HISTORY_DURATION) polls5 ->
  msgs (fst (asm_run (mkAsm [] None prev0)
     (transmission_ops b1 b2 b3 n1 n2 n3 t1 t2 t3 u1 u2 u3 tf polls1 polls2 pa pb polls4 polls5 polls6)))
  = [(tf, Ok (SOM h)); (u2, Ok EOM)].
Proof. exact transmission_exact. Qed.
Print Assumptions C01_transmission_exact_abstract.

(** instance: every canonical header (any originator/event/locations/callsign, up to the
    maximum length) received intact three times, and any three bursts beginning "NN" *)
Theorem C01_clean_transmission_exact :
  forall H h0 prev0 n1 n2 n3 t1 t2 t3 u1 u2 u3 tf polls1 polls2 pa pb polls4 polls5 polls6,
  header_new H = Ok h0 -> h_text h0 = H -> forallb is_allowed_byte H = true ->
  (length H <= MAX_MESSAGE_LENGTH)%nat -> nd h0 (prune_previous prev0 t1) ->
  starts_NN n1 -> starts_NN n2 -> starts_NN n3 -> all_bytes n1 = true ->
  t1 <= t2 -> t2 <= t3 -> t3 + MAX_INTERBURST_SYMBOLS <= tf -> tf <= u1 -> u1 <= u2 -> u2 <= u3 ->
  u3 < t2 + MAX_HISTORY_DURATION -> t3 < t1 + MAX_HISTORY_DURATION ->
  Forall (fun n => n < t1 + MAX_HISTORY_DURATION) polls1 ->
  Forall (fun n => n < t2 + MAX_INTERBURST_SYMBOLS /\ n < t1 + MAX_HISTORY_DURATION) polls2 ->
  Forall (fun n => n < t3 + MAX_INTERBURST_SYMBOLS /\ n < t2 + MAX_HISTORY_DURATION) pa ->
  Forall (fun n => n < t2 + MAX_HISTORY_DURATION) pb ->
  Forall (fun n => n < t2 + MAX_HISTORY_DURATION) polls4 ->
  Forall (fun n => n < t2 + MAX_HISTORY_DURATION) polls5 ->
  msgs (fst (asm_run (mkAsm [] None prev0)
              (transmission_ops H H H n1 n2 n3 t1 t2 t3 u1 u2 u3 tf polls1 polls2 pa pb polls4 polls5 polls6)))
  = [(tf, Ok (SOM (mkHeader H (h_offset_time h0) (parity_spec H H) (voting_spec H H)))); (u2, Ok EOM)].
Proof. exact clean_transmission_exact. Qed.
Print Assumptions C01_clean_transmission_exact.

(** the combine facts used above, for reference: two trailer bursts outvote any older burst *)
Theorem C01_two_trailer_bursts_outvote_history : forall X A B,
  all_bytes X = true -> starts_NN A -> starts_NN B -> combine [X; A; B] = Some (Ok EOM).
Proof. exact combine_X_NN. Qed.
Print Assumptions C01_two_trailer_bursts_outvote_history.

(** non-vacuity: a concrete canonical header; the concrete six-burst history evaluates to
    exactly one StartOfMessage and one EndOfMessage *)
Theorem C01_hypotheses_satisfiable :
  (exists h0, header_new str_A = Ok h0 /\ h_text h0 = str_A /\ forallb is_allowed_byte str_A = true
              /\ (length str_A <= MAX_MESSAGE_LENGTH)%nat)
  /\ report_kinds (fst (asm_run asm_init
       (tx_ops 1000 [(SEC,str_A);(SEC,str_A);(SEC,str_A);(1300,str_N);(SEC,str_N);(SEC,str_N)] 800)))
     = [(4637, 1); (6096, 3)].
Proof. exact (conj str_A_canonical normal_transmission). Qed.
Print Assumptions C01_hypotheses_satisfiable.

(** KNOWN FINDING F9 — "text byte-identical to the transmitted header" is false of the faithful
    model when what follows the header in the bursts votes to allowed characters ending in '-'
    within 8 - len(callsign) positions: the greedy 3..8 character callsign swallows them.
    Witnesses (the first observed on real audio at 20 dB SNR, the second with an older burst in the
    history); both replayed on the implementation by the check. *)
Theorem C01_F9_refuted :
  match combine [f9_H ++ [205; 156]; f9_H ++ [42; 165]; f9_H ++ [192; 235]] with
  | Some (Ok (SOM h)) => h_text h = f9_H ++ [72; 45]
  | _ => False
  end.
Proof. exact F9_junk_extends_callsign. Qed.
Print Assumptions C01_F9_refuted.

Theorem C01_F9_old_burst_refuted :
  match combine [f9_old; f9_W ++ [255; 255; 255]; f9_W ++ [0; 0; 0]] with
  | Some (Ok (SOM h)) => h_text h = f9_W ++ [53; 54; 45] /\ h_voting h = 40
  | _ => False
  end.
Proof. exact F9_old_burst_extends_callsign. Qed.
Print Assumptions C01_F9_old_burst_refuted.
