(** C10 -- the symbol timing loop (symsync.rs), bit-exact in IEEE-754 binary32 (Flocq).  A dependency of Properties/C10.v, separate
    from C10_float.v only so that the two slow Print Assumptions traversals run in parallel; output redirected to
    Properties/C10_timing.<theorem>.out, read by the check on every run. *)
From Coq Require Import ZArith List Bool.
From Flocq Require Import Core BinarySingleNaN.
From Sameold Require Import Model.ConfigSizes Model.FloatDsp Proofs.AgcP.

(** timing loop (symsync.rs): ANY sequence of calls with finite samples (|s| <= 2^30) and non-NaN clock offsets: every commanded
    period is finite and at least -1/2 sample -- the symbol clock never becomes a NaN, never stalls, never runs backwards -- and
    the average period stays finite and inside [period_min, period_max] *)
From Sameold Require Import Proofs.TimingP.
Theorem C10_timing_loop_never_stalls : forall l ins,
  tl_premises l = true -> forallb in_okb ins = true ->
  let l' := fst (tloop_run l ins) in
  forallb (fun p => is_finite p && fle (fneg fhalf) p) (snd (tloop_run l ins)) = true /\
  is_finite (tl_pavg l') = true /\ fle (tl_pmin l') (tl_pavg l') = true /\ fle (tl_pavg l') (tl_pmax l') = true.
Proof. exact tloop_never_stalls_bool. Qed.
Redirect "Properties/C10_timing.C10_timing_loop_never_stalls" Print Assumptions C10_timing_loop_never_stalls.

Theorem C10_timing_loop_premises_are_met_at_22050_Hz :
  tl_premises tloop_22050 = true /\ in_okb (of_bits 1315859240, of_bits 3212836864) = true.
Proof. exact tloop_premises_hold. Qed.
Redirect "Properties/C10_timing.C10_timing_loop_premises_are_met_at_22050_Hz" Print Assumptions C10_timing_loop_premises_are_met_at_22050_Hz.
