(** C17 -- the documented special value with_dc_blocker_length(0.0) ("disabled"), which since fix aac361b builds a DC blocker of
    length 1, really is a no-op: bit-exact IEEE-754 binary32 (Flocq).  A dependency of Properties/C17.v; Print Assumptions output
    redirected to Properties/C17_float.<theorem>.out, read by the check on every run. *)
From Coq Require Import ZArith List Bool Reals.
From Flocq Require Import Core BinarySingleNaN.
From Sameold Require Import Model.ConfigSizes Model.FloatDsp Proofs.DcIdentityP.

(** every sample of every finite input sequence leaves a length-1 DC blocker unchanged (as a real number: only the sign of a
    zero may differ) and finite *)
Theorem C17_disabled_dc_blocker_passes_everything : forall xs : list f32,
  Forall (fun x => is_finite x = true) xs ->
  Forall2 (fun x y => B2R y = B2R x /\ is_finite y = true) xs (snd (dcb_run (dcb_new 1) xs)).
Proof. exact dcb_disabled_passes_everything. Qed.
Redirect "Properties/C17_float.C17_disabled_dc_blocker_passes_everything" Print Assumptions C17_disabled_dc_blocker_passes_everything.
