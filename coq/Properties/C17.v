(** C17 — Every documented configuration builds and runs (panic sites of the builder, of the
    construction and of the data-dependent per-sample clamps). *)
From Coq Require Import ZArith.
From Sameold Require Import Base.Bytes Model.Config Model.ConfigSizes Model.Squelch
  Proofs.ConfigP Proofs.ConfigSizesP.

(** Floats are any totally ordered type (the domain excludes NaN).  ANY sequence of builder
    calls with ANY arguments — in any order, repeated, including the documented special values —
    returns a builder (no [clamp] with min > max is ever executed) satisfying the invariant. *)
Theorem C17_no_builder_call_panics :
  forall (F : Type) (le : F -> F -> bool) (f0 f1 fhalf fmaxv : F),
  (forall x, le x x = true) ->
  (forall x y z, le x y = true -> le y z = true -> le x z = true) ->
  (forall x y, le x y = true \/ le y x = true) ->
  le f0 f1 = true -> le f0 fhalf = true -> le f0 fmaxv = true ->
  forall d_dc d_agc d_gmax d_tbu d_tbl d_dev d_sqo d_sqc d_sqbw d_relax d_regul,
  le f0 d_tbu = true ->
  forall rate cs,
  exists b', apply_calls F le f0 f1 fhalf fmaxv d_relax d_regul
               (builder_new F f0 d_dc d_agc d_gmax d_tbu d_tbl d_dev d_sqo d_sqc d_sqbw d_relax d_regul rate) cs = Done b'
             /\ Inv F le f0 b' /\ b_rate F b' = rate.
Proof.
  intros F le f0 f1 fhalf fmaxv Hr Ht Htot c01 c0h c0m d_dc d_agc d_gmax d_tbu d_tbl d_dev d_sqo d_sqc d_sqbw d_relax d_regul Hd rate cs.
  apply (apply_calls_ok F le f0 f1 fhalf fmaxv Hr c01 c0h c0m d_relax d_regul cs).
  apply new_inv. exact Hd.
Qed.
Print Assumptions C17_no_builder_call_panics.

(** construction from any builder satisfying the invariant: no assert fires provided the
    matched filter has at least one tap; the DC blocker gets >= 1 sample whatever the float
    product truncates to (0 for the documented 0.0 "disabled") *)
Theorem C17_build_never_panics :
  forall (F : Type) (le : F -> F -> bool) (f0 f1 fhalf : F),
  (forall x, le x x = true) -> le f0 f1 = true -> le f0 fhalf = true ->
  forall d_relax d_regul b ntaps dcraw bw,
  Inv F le f0 b -> (1 <= ntaps)%nat ->
  exists l, build F le f0 f1 fhalf d_relax d_regul b ntaps dcraw bw = Done l
            /\ (1 <= l_dc l)%nat /\ l_demod l = ntaps /\ (1 <= l_fb l <= l_ff l)%nat.
Proof. intros F le f0 f1 fhalf Hr c01 c0h. exact (build_ok F le f0 f1 fhalf Hr c01 c0h). Qed.
Print Assumptions C17_build_never_panics.

(** the tap count, evaluated in IEEE-754 binary32 (Flocq), for every rate 8000..192000 Hz *)
Theorem C17_matched_filter_has_taps_at_every_rate :
  forall rate : Z, (8000 <= rate <= 192000)%Z -> (15 <= ntaps rate)%Z.
Proof. exact ntaps_ge_15. Qed.
Print Assumptions C17_matched_filter_has_taps_at_every_rate.

Theorem C17_dc_window_at_least_one_sample : forall dc_bits rate : Z, (1 <= dc_window dc_bits rate)%Z.
Proof. exact dc_window_ge_1. Qed.
Print Assumptions C17_dc_window_at_least_one_sample.

(** the two inputs that panicked before the repair do truncate to zero samples *)
Theorem C17_zero_length_inputs_exist : dcraw 0 22050 = 0%Z /\ dcraw 1028443341 8000 = 0%Z.
Proof. exact dc_zero_is_zero_samples. Qed.
Print Assumptions C17_zero_length_inputs_exist.

(** per-sample clamps with data-dependent bounds *)
Theorem C17_agc_clamp_needs_only_min_le_max :
  forall (F : Type) (le : F -> F -> bool), (forall x, le x x = true) ->
  forall (b : builder F) gain, le (b_gmin F b) (b_gmax F b) = true ->
  exists v, agc_input_clamp F le b gain = Done v.
Proof. intros F le Hr. exact (agc_clamp_ok F le Hr). Qed.
Print Assumptions C17_agc_clamp_needs_only_min_le_max.

(** the squelch's expect() on its power history cannot fail, for any input and any state *)
Theorem C17_squelch_expect_unreachable : forall me s bit po pc, fst (sq_input me s bit po pc) <> SqPanic.
Proof. exact squelch_never_panics. Qed.
Print Assumptions C17_squelch_expect_unreachable.

(** the "disabled" DC blocker (length 1) is a no-op, bit-exact in binary32: Properties/C17_float.v (dependency; assumptions redirected) *)
From Sameold Require Import Properties.C17_float.
