(** C03 — Bit voting: one bad burst cannot change the decoded header.
    Only statements, [exact] of lemmas proved elsewhere, and [Print Assumptions]. *)
From Sameold Require Import Base.Bytes Model.Header Model.Combiner
  Proofs.Vote Proofs.HeaderP Proofs.CombinerP.

(** per-byte 2-of-3 vote: bitwise majority, and the count of non-unanimous bit positions *)
Theorem C03_vote3_majority : forall a b c, a < 256 -> b < 256 -> c < 256 ->
  (forall i, N.testbit (fst (bit_vote_correct a b c)) i
             = maj (N.testbit a i) (N.testbit b i) (N.testbit c i))
  /\ fst (bit_vote_correct a b c) < 256
  /\ snd (bit_vote_correct a b c) = disagreements3 a b c.
Proof.
  intros a b c Ha Hb Hc. split; [intros i; exact (vote3_testbit a b c i Ha Hb Hc)|].
  split; [exact (vote3_lt256 a b c Ha Hb Hc)|exact (vote3_errs a b c Ha Hb Hc)].
Qed.
Print Assumptions C03_vote3_majority.

(** per-byte 2-of-2 vote: the byte if both agree, else the (disallowed) zero byte *)
Theorem C03_vote2_equality : forall a b, a < 256 -> b < 256 ->
  bit_vote_detect a b = (if a =? b then a else 0, disagreements2 a b).
Proof. exact vote2_spec. Qed.
Print Assumptions C03_vote2_equality.

(** two intact copies of a valid header decide the result, whatever the third burst
    contains, of whatever length, in whichever of the three positions it arrives *)
Theorem C03_two_good_third_arbitrary : forall p H X h0,
  header_new H = Ok h0 -> h_text h0 = H ->
  forallb is_allowed_byte H = true ->
  (length H <= MAX_MESSAGE_LENGTH)%nat ->
  all_bytes X = true ->
  combine (arr p H X) =
  Some (Ok (SOM (mkHeader H (h_offset_time h0) (parity_spec H X) (voting_spec H X)))).
Proof. exact combine_two_good. Qed.
Print Assumptions C03_two_good_third_arbitrary.

(** whatever header comes out of at most three bursts: every reported byte is backed by
    at least two bursts (equal if two, bitwise majority if three); the error count is the
    number of disagreeing bit positions within the text plus one per position with an
    eighth bit set; the voting count is the number of positions with three bursts *)
Theorem C03_header_backed_and_counted : forall bs h,
  (length bs <= 3)%nat -> Forall (fun b => all_bytes b = true) bs ->
  combine bs = Some (Ok (SOM h)) ->
  h_text h <> []
  /\ (forall i c, nth_error (h_text h) i = Some c ->
        (2 <= length (column i bs))%nat /\ col_agreed (column i bs) c /\ is_allowed_byte c = true)
  /\ h_parity h = index_sum (length (h_text h)) (fun i => col_disagree (column i bs))
  /\ h_voting h = index_sum (length (h_text h))
                    (fun i => b2n (3 <=? N.of_nat (length (column i bs)))).
Proof. exact combine_som_backed. Qed.
Print Assumptions C03_header_backed_and_counted.

Theorem C03_two_bursts_only_agreed_bytes : forall A B h,
  all_bytes A = true -> all_bytes B = true ->
  combine [A; B] = Some (Ok (SOM h)) ->
  forall i c, nth_error (h_text h) i = Some c ->
    exists a b, nth_error A i = Some a /\ nth_error B i = Some b /\ mask7 a = c /\ mask7 b = c.
Proof. exact combine_two_only_agreed. Qed.
Print Assumptions C03_two_bursts_only_agreed_bytes.

Theorem C03_one_burst_never_a_header : forall A,
  combine [A] = None \/ combine [A] = Some (Ok EOM).
Proof. exact combine_one_never_header. Qed.
Print Assumptions C03_one_burst_never_a_header.

(** non-vacuity: the hypotheses of [C03_two_good_third_arbitrary] are met by the
    42-byte header of the crate's own tests, with a corrupted, longer third burst *)
Definition ex_header : bytes :=
  [90;67;90;67;45;69;65;83;45;68;77;79;45;57;57;57;48;48;48;43;48;48;49;53;45;
   48;48;49;49;49;50;50;45;78;79;67;65;76;76;48;48;45].
Definition ex_corrupt : bytes :=
  [90;67;90;75;45;69;65;83;45;68;77;70;45;57;57;57;33;48;48;43;48;48;49;53;45;
   48;48;49;49;49;50;50;45;78;79;67;65;76;76;48;48;45;75;88;89;90].
Example C03_hypotheses_satisfiable :
  (exists h0, header_new ex_header = Ok h0 /\ h_text h0 = ex_header)
  /\ forallb is_allowed_byte ex_header = true
  /\ (length ex_header <= MAX_MESSAGE_LENGTH)%nat
  /\ all_bytes ex_corrupt = true
  /\ combine [ex_header; ex_corrupt; ex_header]
     = Some (Ok (SOM (mkHeader ex_header 19 5 42))).
Proof.
  split; [eexists; split; vm_compute; reflexivity|].
  repeat split; try (vm_compute; reflexivity).
  apply Nat.leb_le. vm_compute. reflexivity.
Qed.
