(** C04 — No message without evidence; non-SAME audio reports nothing. *)
From Sameold Require Import Base.Bytes Model.Header Model.Combiner Model.Framer Model.Squelch
  Model.Assembler Model.Receiver Proofs.CombinerP Proofs.EvidenceP.

(** for EVERY item stream (= whatever the audio and the DSP made of it), every
    StartOfMessage event of a fresh receiver is what [combine] makes of at most three
    consecutive bursts that were reported as link events before it *)
Theorem C04_no_som_without_evidence : forall c src,
  max_prefix_bit_errors (fc c) <= 7 ->
  justified_events [] (fst (run_core c core_init src)).
Proof. exact no_som_without_evidence. Qed.
Print Assumptions C04_no_som_without_evidence.

Theorem C04_justified_means_backed : forall log h,
  Forall (fun b => all_bytes b = true) log -> justified_som log h ->
  exists w, is_window w (map trunc log) /\ (length w <= 3)%nat
    /\ forall i c, nth_error (h_text h) i = Some c ->
         (2 <= length (column i w))%nat /\ col_agreed (column i w) c.
Proof. exact justified_means_backed. Qed.
Print Assumptions C04_justified_means_backed.

Theorem C04_no_bursts_no_som : forall h, ~ justified_som [] h.
Proof. exact no_bursts_no_som. Qed.
Print Assumptions C04_no_bursts_no_som.

Theorem C04_lone_burst_no_som : forall b h, ~ justified_som [b] h.
Proof. exact one_burst_no_som. Qed.
Print Assumptions C04_lone_burst_no_som.

(** EVERY successfully decoded message event — EndOfMessage included — of every step from a state
    satisfying the invariant (every reachable state does: C04_no_som_without_evidence's induction)
    is what [combine] makes of at most three consecutive bursts reported so far, or it is the
    forced EndOfMessage of an armed timer whose deadline has passed (C09: armed only by a
    StartOfMessage event, 135 s ahead) *)
Theorem C04_every_message_event_is_justified : forall c k log i k' evs,
  max_prefix_bit_errors (fc c) <= 7 ->
  CInv k log -> step_core c k i = (k', evs) ->
  CInv k' (log ++ bursts_of evs)
  /\ (forall e m, In e evs -> ev_what e = WTransport (TMessage (Ok m)) -> msg_justified k (log ++ bursts_of evs) m).
Proof.
  intros c k log i k' evs Hb Hi E.
  destruct (step_core_justified_gen c k log i k' evs Hb Hi E) as (A & _ & B). split; assumption.
Qed.
Print Assumptions C04_every_message_event_is_justified.

(** an EndOfMessage that [combine] produces comes from bursts voting to "NN": the estimate of the
    window starts with "NN" (by definition of combine: message_prefix_is_eom or the NN prefix
    dispatch) — one, two or three bursts that all start "NN" always do *)
From Sameold Require Proofs.AssemblerP.
Theorem C04_nn_bursts_give_eom : forall bs,
  (1 <= length bs <= 3)%nat -> Forall AssemblerP.starts_NN bs -> combine bs = Some (Ok EOM).
Proof. exact AssemblerP.combine_NN. Qed.
Print Assumptions C04_nn_bursts_give_eom.
