(** C04 — No message without evidence; non-SAME audio reports nothing. *)
From Sameold Require Import Base.Bytes Model.Header Model.Combiner Model.Framer Model.Squelch
  Model.Assembler Model.Receiver Proofs.CombinerP Proofs.EvidenceP.

(** for EVERY item stream (= whatever the audio and the DSP made of it), every
    StartOfMessage event of a fresh receiver is what [combine] makes of at most three
    consecutive bursts that were reported as link events before it *)
Theorem C04_no_som_without_evidence : forall c src,
  max_prefix_bit_errors (fc c) <= 7 ->
  justified_events [] (fst (run_core c core_init src)).
Proof. exact no_som_without_evidence. Qed.
Print Assumptions C04_no_som_without_evidence.

Theorem C04_justified_means_backed : forall log h,
  Forall (fun b => all_bytes b = true) log -> justified_som log h ->
  exists w, is_window w (map trunc log) /\ (length w <= 3)%nat
    /\ forall i c, nth_error (h_text h) i = Some c ->
         (2 <= length (column i w))%nat /\ col_agreed (column i w) c.
Proof. exact justified_means_backed. Qed.
Print Assumptions C04_justified_means_backed.

Theorem C04_no_bursts_no_som : forall h, ~ justified_som [] h.
Proof. exact no_bursts_no_som. Qed.
Print Assumptions C04_no_bursts_no_som.

Theorem C04_lone_burst_no_som : forall b h, ~ justified_som [b] h.
Proof. exact one_burst_no_som. Qed.
Print Assumptions C04_lone_burst_no_som.
