(** C13 — Streaming: results independent of chunking; nothing is read ahead. *)
From Sameold Require Import Base.Bytes Model.Header Model.Combiner Model.Framer Model.Squelch
  Model.Assembler Model.Receiver Proofs.ReceiverP.

Theorem C13_one_pass_is_compositional : forall c xs ys k,
  run_core c k (xs ++ ys) =
  let '(e1, k1) := run_core c k xs in
  let '(e2, k2) := run_core c k1 ys in (e1 ++ e2, k2).
Proof. exact run_core_app. Qed.
Print Assumptions C13_one_pass_is_compositional.

(** one [next()] call delivers exactly the next event of the single pass *)
Theorem C13_next_is_next_event : forall c s src,
  let all := r_queue s ++ fst (run_core c (r_core s) src) in
  match process c s src with
  | (None, s', rest) =>
    all = [] /\ rest = [] /\ r_queue s' = [] /\ r_core s' = snd (run_core c (r_core s) src)
  | (Some e, s', rest) =>
    all = e :: r_queue s' ++ fst (run_core c (r_core s') rest)
    /\ snd (run_core c (r_core s') rest) = snd (run_core c (r_core s) src)
  end.
Proof. exact process_spec. Qed.
Print Assumptions C13_next_is_next_event.

(** any partition into chunks, drained by any number of separate iterator bindings taking
    one event at a time: same events, same order, same final state as one pass *)
Theorem C13_schedule_independence : forall c fuel s cur chunks,
  let all := r_queue s ++ fst (run_core c (r_core s) (cur ++ concat chunks)) in
  (length all + length chunks < fuel)%nat ->
  sched fuel c s cur chunks =
  (all, mkRx (snd (run_core c (r_core s) (cur ++ concat chunks))) []).
Proof. exact sched_complete. Qed.
Print Assumptions C13_schedule_independence.

Theorem C13_no_read_ahead : forall c k src e s' rest,
  process c (mkRx k []) src = (Some e, s', rest) ->
  exists consumed, src = consumed ++ rest
    /\ r_samples (r_core s') = r_samples k + N.of_nat (length consumed)
    /\ ev_time e = r_samples (r_core s').
Proof. exact no_read_ahead. Qed.
Print Assumptions C13_no_read_ahead.

Theorem C13_timestamps_monotone : forall c src k,
  sorted_from (r_samples k) (fst (run_core c k src))
  /\ Forall (fun e => r_samples k < ev_time e <= r_samples k + N.of_nat (length src)) (fst (run_core c k src))
  /\ r_samples (snd (run_core c k src)) = r_samples k + N.of_nat (length src).
Proof. exact timestamps_monotone. Qed.
Print Assumptions C13_timestamps_monotone.

(** link events follow the carrier lifecycle, for EVERY item stream from a new receiver:
    no carrier -> searching -> {reading, no carrier}; reading -> burst; burst -> no carrier;
    and the one extra edge burst -> searching (known finding F7).  [link_chain] walks the event
    list and checks each link event against the kind of the previous one. *)
From Sameold Require Import Proofs.LifecycleP.
Theorem C13_link_events_follow_lifecycle : forall c src,
  max_prefix_bit_errors (fc c) <= 7 ->
  link_chain Kn (fst (run_core c core_init src)).
Proof. exact link_events_follow_lifecycle. Qed.
Print Assumptions C13_link_events_follow_lifecycle.

(** the automaton, spelled out: exactly these edges between consecutive link states *)
Theorem C13_lifecycle_edges :
  forall a b, edge_ok a b = true <->
    (a = Kn /\ (b = Kn \/ b = Ks)) \/ (a = Ks /\ (b = Ks \/ b = Kr \/ b = Kn))
    \/ (a = Kr /\ (b = Kr \/ b = KB)) \/ (a = KB /\ (b = Kn \/ b = Ks)).
Proof.
  intros a b. split.
  - destruct a, b; cbn; intros H; try discriminate; tauto.
  - intros [[-> [->| ->]]|[[-> [->|[->| ->]]]|[[-> [->| ->]]|[-> [->| ->]]]]]; reflexivity.
Qed.
Print Assumptions C13_lifecycle_edges.

(** while a burst is being read the squelch is locked and cannot re-synchronise: the next link
    state is reading or burst *)
Theorem C13_no_resync_while_reading : forall c s f t l s' f' u m i,
  max_prefix_bit_errors (fc c) <= 7 ->
  f = FDataRead m i -> locked_while_reading s f ->
  linklayer_symbol c s f t = (l, s', f', u) ->
  kind_of l = Kr \/ kind_of l = KB.
Proof. exact no_resync_while_reading. Qed.
Print Assumptions C13_no_resync_while_reading.

(** KNOWN FINDING F7: the edge burst -> searching does occur (a preamble bit pattern that slips
    by one bit during the burst re-synchronises the squelch on the symbol after the burst ended) *)
Theorem C13_F7_refuted :
  link_kinds (fst (run_core f7_cfg core_init f7_items)) = [(32, Ks); (64, Kr); (120, KB); (121, Ks)].
Proof. exact F7_burst_then_searching. Qed.
Print Assumptions C13_F7_refuted.

(** * iter_events() and iter_messages() mixed on one receiver *)
From Sameold Require Import Proofs.FlushP Proofs.MixedP.

(** ANY sequence of calls — next() on an event iterator ([PCall]) or on a message iterator ([MCall], given
    enough internal steps) — threaded through the receiver and the shared source, answers exactly what the same
    calls answer on the single pass's pending event stream alone *)
Theorem C13_mixed_iterators_refine_the_single_pass : forall c cs s src,
  fuel_ok (length (pending c s src)) cs ->
  run_calls c s src cs = spec_calls (pending c s src) cs.
Proof. exact mixed_calls_refine. Qed.
Print Assumptions C13_mixed_iterators_refine_the_single_pass.

(** and those answers are, in order, a subsequence of that stream: an event call shows the next event, a message
    call the next Ok message, discarding exactly the non-message events before it — nothing twice, nothing
    out of order, nothing invented *)
Theorem C13_mixed_iterators_take_a_subsequence : forall cs R,
  spec_calls R cs = answers_of R cs /\ subseq (taken R cs) R.
Proof. intros cs R. split; [apply spec_calls_answers|apply taken_is_subsequence]. Qed.
Print Assumptions C13_mixed_iterators_take_a_subsequence.
