(** C13 — Streaming: results independent of chunking; nothing is read ahead. *)
From Sameold Require Import Base.Bytes Model.Header Model.Combiner Model.Framer Model.Squelch
  Model.Assembler Model.Receiver Proofs.ReceiverP.

Theorem C13_one_pass_is_compositional : forall c xs ys k,
  run_core c k (xs ++ ys) =
  let '(e1, k1) := run_core c k xs in
  let '(e2, k2) := run_core c k1 ys in (e1 ++ e2, k2).
Proof. exact run_core_app. Qed.
Print Assumptions C13_one_pass_is_compositional.

(** one [next()] call delivers exactly the next event of the single pass *)
Theorem C13_next_is_next_event : forall c s src,
  let all := r_queue s ++ fst (run_core c (r_core s) src) in
  match process c s src with
  | (None, s', rest) =>
    all = [] /\ rest = [] /\ r_queue s' = [] /\ r_core s' = snd (run_core c (r_core s) src)
  | (Some e, s', rest) =>
    all = e :: r_queue s' ++ fst (run_core c (r_core s') rest)
    /\ snd (run_core c (r_core s') rest) = snd (run_core c (r_core s) src)
  end.
Proof. exact process_spec. Qed.
Print Assumptions C13_next_is_next_event.

(** any partition into chunks, drained by any number of separate iterator bindings taking
    one event at a time: same events, same order, same final state as one pass *)
Theorem C13_schedule_independence : forall c fuel s cur chunks,
  let all := r_queue s ++ fst (run_core c (r_core s) (cur ++ concat chunks)) in
  (length all + length chunks < fuel)%nat ->
  sched fuel c s cur chunks =
  (all, mkRx (snd (run_core c (r_core s) (cur ++ concat chunks))) []).
Proof. exact sched_complete. Qed.
Print Assumptions C13_schedule_independence.

Theorem C13_no_read_ahead : forall c k src e s' rest,
  process c (mkRx k []) src = (Some e, s', rest) ->
  exists consumed, src = consumed ++ rest
    /\ r_samples (r_core s') = r_samples k + N.of_nat (length consumed)
    /\ ev_time e = r_samples (r_core s').
Proof. exact no_read_ahead. Qed.
Print Assumptions C13_no_read_ahead.

Theorem C13_timestamps_monotone : forall c src k,
  sorted_from (r_samples k) (fst (run_core c k src))
  /\ Forall (fun e => r_samples k < ev_time e <= r_samples k + N.of_nat (length src)) (fst (run_core c k src))
  /\ r_samples (snd (run_core c k src)) = r_samples k + N.of_nat (length src).
Proof. exact timestamps_monotone. Qed.
Print Assumptions C13_timestamps_monotone.
