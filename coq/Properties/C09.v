(** C09 — Every StartOfMessage is eventually closed; no burst is read forever. *)
From Sameold Require Import Base.Bytes Model.Header Model.Combiner Model.Framer Model.Squelch
  Model.Assembler Model.Receiver Proofs.EvidenceP Proofs.ClosureP.

(** for every item stream: every burst the receiver reports has between 4 and
    MAX_BURST_LENGTH (= MAX_MESSAGE_LENGTH - 16) bytes *)
Theorem C09_every_burst_bounded : forall c src,
  Forall event_bounded (fst (run_core c core_init src)).
Proof. exact every_burst_bounded. Qed.
Print Assumptions C09_every_burst_bounded.

(** one step of the receiver, from any state in which the timer invariant holds:
    a StartOfMessage event arms the timer 135 s ahead of its own timestamp; an armed and
    elapsed timer fires on ANY symbol that does not itself deliver a burst; and an armed
    timer only ever stays, is cleared (EndOfMessage), or is re-armed by a newer StartOfMessage *)
Theorem C09_timer_step : forall c k i k' evs,
  timer_ok k -> step_core c k i = (k', evs) ->
  timer_ok k'
  /\ (forall e, In e evs -> is_som_event e ->
        (exists e', In e' evs /\ e' = eom_event (ev_time e) /\ False) \/
        r_force_eom k' = Some (ev_time e + MAX_MESSAGE_DURATION_SECS * input_rate c))
  /\ (forall t tm, i = Tick t -> r_force_eom k = Some tm -> tm < r_samples k + 1 ->
        (forall b, fst (fst (fst (linklayer_symbol c (r_sq k) (r_fr k) t))) <> LBurst b) ->
        In (eom_event (r_samples k + 1)) evs /\ r_force_eom k' = None)
  /\ (forall tm, r_force_eom k = Some tm ->
        r_force_eom k' = Some tm \/ r_force_eom k' = None
        \/ r_force_eom k' = Some (r_samples k + 1 + MAX_MESSAGE_DURATION_SECS * input_rate c)).
Proof. exact step_core_timer. Qed.
Print Assumptions C09_timer_step.

(** two consecutive symbols never both deliver a burst: the forced EndOfMessage is at most
    two symbols late once the 135 s have elapsed *)
Theorem C09_no_two_consecutive_burst_symbols : forall c s f t l s' f' u t2,
  max_prefix_bit_errors (fc c) <= 7 -> fr_ok f ->
  linklayer_symbol c s f t = (l, s', f', u) -> (exists b, l = LBurst b) ->
  forall b2, fst (fst (fst (linklayer_symbol c s' f' t2))) <> LBurst b2.
Proof. exact no_two_burst_ticks. Qed.
Print Assumptions C09_no_two_consecutive_burst_symbols.

(** Trace level, for EVERY item stream: an armed timer whose deadline [tm] has passed does not
    survive two further symbols (with any number of symbol-less samples between them): by then an
    EndOfMessage event has been emitted, or a newer StartOfMessage has re-armed the timer with a
    later deadline (and then the same statement applies to that one). *)
From Sameold Require Import Proofs.ClosedP.
Theorem C09_armed_timer_resolves : forall c,
  max_prefix_bit_errors (fc c) <= 7 ->
  forall pre k tm t1 gap t2,
  J c k -> r_force_eom k = Some tm ->
  Forall (fun i => i = NoTick) gap ->
  tm < r_samples k + N.of_nat (length pre) + 1 ->
  let r := run_core c k (pre ++ Tick t1 :: gap ++ [Tick t2]) in
  resolved tm (fst r) (snd r).
Proof. exact armed_timer_resolves. Qed.
Print Assumptions C09_armed_timer_resolves.

(** the invariant it needs holds initially and is kept by every step *)
Theorem C09_timer_invariant : forall c,
  max_prefix_bit_errors (fc c) <= 7 ->
  J c core_init /\ (forall k i k' evs, J c k -> step_core c k i = (k', evs) -> J c k').
Proof. intros c Hb. split; [apply J_init|apply step_J; exact Hb]. Qed.
Print Assumptions C09_timer_invariant.
