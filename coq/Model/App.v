(** Model of samedec's live mode (crates/samedec/src/app.rs [run], [until_message_start],
    [until_message_end], [run_child]) over an abstract receiver, and of the child environment
    built by spawner.rs.  No proofs here.

    The receiver is any transducer with the two operations samedec uses:
      [next_msg rx input] = [rx.iter_messages(input).next()]: consumes a prefix of the input and
        returns the first successfully decoded message, or None when the input is exhausted;
      [flush rx]          = [rx.flush()].
    The child is an oracle: whether the k-th spawn succeeds.  What the child does with its
    standard input does not appear: the write results are discarded by the code
    ([let _ = child_pipe.write_i16(..)]) and so is the exit status. *)
From Sameold Require Import Base.Bytes Model.Header Model.Events Model.IssueTime.
Local Open Scope N_scope.

Section App.
  Variables (RX sample : Type).
  Variable next_msg : RX -> list sample -> option message * RX * list sample.
  Variable flush : RX -> option message * RX.

  Inductive phase := Waiting | Alerting (next : option message).

  (** one child: the header it was spawned for, how many samples had been consumed before its
      first sample, the samples written to its standard input; None = the spawn failed *)
  Record spawn_rec := mkSpawn { sp_header : header; sp_child : option (nat * list sample) }.

  Record out := mkOut { o_stdout : list message; o_spawns : list spawn_rec }.

  Definition emit (quiet : bool) (m : message) (o : out) : out :=
    if quiet then o else mkOut (o_stdout o ++ [m]) (o_spawns o).
  Definition record_spawn (r : spawn_rec) (o : out) : out := mkOut (o_stdout o) (o_spawns o ++ [r]).

  (** the samples a call consumed: the input minus what is left *)
  Definition consumed (input rest : list sample) : list sample := firstn (length input - length rest) input.

  Fixpoint app (fuel : nat) (quiet has_child : bool) (spawn_ok : nat -> bool)
           (k pos : nat) (rx : RX) (input : list sample) (ph : phase) (o : out) : option out :=
    match fuel with
    | O => None
    | S f =>
      match ph with
      | Waiting =>
        (* until_message_start *)
        match next_msg rx input with
        | (Some m, rx', rest) =>
          app f quiet has_child spawn_ok k (pos + length (consumed input rest)) rx' rest (Alerting (Some m)) o
        | (None, rx', rest) =>
          match flush rx' with
          | (Some m, rx'') => app f quiet has_child spawn_ok k (pos + length (consumed input rest)) rx'' rest (Alerting (Some m)) o
          | (None, _) => Some o                                  (* run() returns *)
          end
        end
      | Alerting None => app f quiet has_child spawn_ok k pos rx input Waiting o
      | Alerting (Some m) =>
        (* until_message_end: print, then decide *)
        let o1 := emit quiet m o in
        match m with
        | EOM => app f quiet has_child spawn_ok k pos rx input Waiting o1
        | SOM hdr =>
          if negb has_child then app f quiet has_child spawn_ok k pos rx input Waiting o1
          else if spawn_ok k then
            (* run_child: tee every consumed sample to the child until the next message *)
            let '(m', rx', rest) := next_msg rx input in
            let fed := consumed input rest in
            app f quiet has_child spawn_ok (S k) (pos + length fed) rx' rest (Alerting m')
                (record_spawn (mkSpawn hdr (Some (pos, fed))) o1)
          else
            app f quiet has_child spawn_ok (S k) pos rx input Waiting (record_spawn (mkSpawn hdr None) o1)
        end
      end
    end.

  Definition run (fuel : nat) (quiet has_child : bool) (spawn_ok : nat -> bool) (rx : RX) (input : list sample) : option out :=
    app fuel quiet has_child spawn_ok 0 0 rx input Waiting (mkOut [] []).
End App.


(** * The child's environment (spawner.rs), as a function of the header and the clock *)
Definition SPACE : N := 32.

Fixpoint join_with (sep : N) (l : list bytes) : bytes :=
  match l with
  | [] => []
  | [x] => x
  | x :: r => x ++ sep :: join_with sep r
  end.

(** decimal rendering of an integer ([format!("{}")] / chrono [%s]) *)
Fixpoint digits_of_pos (fuel : nat) (n : N) (acc : bytes) : bytes :=
  match fuel with
  | O => acc
  | S f => let acc' := (48 + n mod 10) :: acc in if n / 10 =? 0 then acc' else digits_of_pos f (n / 10) acc'
  end.
Definition decimal_N (n : N) : bytes := digits_of_pos 40 n [].
Definition decimal_Z (z : Z) : bytes :=
  match z with
  | Z0 => [48]
  | Zpos p => decimal_N (Npos p)
  | Zneg p => 45 :: decimal_N (Npos p)
  end.

Record child_env := mkEnv {
  env_rate : bytes; env_msg : bytes; env_org : bytes; env_originator : bytes;
  env_evt : bytes; env_event : bytes; env_significance : bytes; env_sig_num : bytes;
  env_locations : bytes; env_issuetime : bytes; env_purgetime : bytes; env_is_national : bytes }.

Definition originator_display (o : originator) : bytes :=
  match find (fun row => match row with name :: _ => list_eqb name o | [] => false end) Generated.ORIGINATORS with
  | Some [_; _; disp] => disp
  | _ => []
  end.

(** issue time of the header given the spawn-time clock as (year, day of year) *)
Definition issue_unix (h : header) (now_year now_doy : Z) : outcome (option Z) :=
  obind (issue_daytime_fields h) (fun jhm =>
    let '(jjj, hh, mm) := jhm in
    Done (calculate_issue_time (Z.of_N jjj) (Z.of_N hh) (Z.of_N mm) now_year now_doy)).

Definition build_env (h : header) (rate : bytes) (now_year now_doy : Z) : outcome child_env :=
  obind (issue_unix h now_year now_doy) (fun issue =>
  obind (valid_duration_fields h) (fun dur =>
  obind (locations h) (fun locs =>
  obind (originator_str h) (fun org =>
  obind (callsign h) (fun call =>
  obind (event_str h) (fun evt =>
  obind (is_national h) (fun natl =>
  let ev := event_from evt in
  let '(issue_s, purge_s) :=
    match issue with
    | Some t => (decimal_Z t, decimal_Z (t + valid_duration_s (Z.of_N (fst dur)) (Z.of_N (snd dur)))%Z)
    | None => ([], [])
    end in
  Done (mkEnv rate (h_text h) org (originator_display (originator_from_org_and_call org call))
              evt (event_display ev) (sig_code_str (snd ev)) (decimal_N (sig_as_u8 (snd ev)))
              (join_with SPACE locs) issue_s purge_s (if natl then [89] else []))))))))).
