(** Model of crates/sameold/src/receiver/combiner.rs.  No proofs here. *)
From Sameold Require Import Base.Bytes Model.Header.
From Sameold Require Gen.Generated.

Definition MAX_MESSAGE_LENGTH : nat := N.to_nat Generated.MAX_MESSAGE_LENGTH.

Definition is_allowed_byte (c : N) : bool :=
  (c =? 45)
  || ((48 <=? c) && (c <=? 57))
  || ((65 <=? c) && (c <=? 90))
  || ((97 <=? c) && (c <=? 122))
  || (c =? 47) || (c =? 63) || (c =? 40) || (c =? 41)
  || (c =? 91) || (c =? 93) || (c =? 46) || (c =? 95)
  || (c =? 44) || (c =? 43) || (c =? 32).

(** [bit_vote_detect]: [(b0 & !(0xff * (xor != 0)), xor.count_ones())] *)
Definition bit_vote_detect (b0 b1 : N) : N * N :=
  let x := N.lxor b0 b1 in
  (N.land b0 (not8 (255 * b2n (negb (x =? 0)))), popcount x).

(** [bit_vote_correct] *)
Definition bit_vote_correct (b0 b1 b2 : N) : N * N :=
  let pair0 := not8 (N.lxor b0 b1) in
  let pair1 := not8 (N.lxor b1 b2) in
  let pair2 := not8 (N.lxor b0 b2) in
  (N.lor (N.lor (N.land b0 pair0) (N.land b2 pair1)) (N.land b2 pair2),
   count_zeros8 (N.land (N.land pair0 pair1) pair2)).

(** heads of the non-exhausted bursts, in burst order *)
Definition heads (bs : list bytes) : bytes :=
  flat_map (fun b => match b with [] => [] | c :: _ => [c] end) bs.
Definition tails (bs : list bytes) : list bytes := map (@tl N) bs.

(** one output position: (estimated byte, bursts used, errors) or stop *)
Definition estimate_step (cur : bytes) : option (N * N * N) :=
  let have_msb := existsb msb cur in
  let m := map mask7 cur in
  let r :=
    match m with
    | [] => None
    | [a] => Some (a, 0)
    | [a; b] => Some (bit_vote_detect a b)
    | [a; b; c] => Some (bit_vote_correct a b c)
    | _ => None      (* unreachable: at most three bursts *)
    end in
  match r with
  | None => None
  | Some (est, errs) =>
    if is_allowed_byte est
    then Some (est, N.of_nat (length m), errs + b2n have_msb)
    else None
  end.

Fixpoint estimate_loop (fuel : nat) (bs : list bytes) : list (N * N * N) :=
  match fuel with
  | O => []
  | S f =>
    match estimate_step (heads bs) with
    | None => []
    | Some e => e :: estimate_loop f (tails bs)
    end
  end.

(** [estimate_message]: (bytes, bursts per byte, bit errors per byte) *)
Definition estimate_message (bursts : list bytes) : bytes * list N * list N :=
  let l := estimate_loop MAX_MESSAGE_LENGTH (firstn 3 bursts) in
  (map (fun e => fst (fst e)) l, map (fun e => snd (fst e)) l, map (fun e => snd e) l).

Fixpoint truncate_with_reference (src : bytes) (cmp : list N) (thr : N) : bytes :=
  match cmp, src with
  | v :: cmp', c :: src' => if v <? thr then [] else c :: truncate_with_reference src' cmp' thr
  | _, _ => []
  end.

Definition message_prefix_is_eom (inp : bytes) : bool :=
  match inp with
  | a :: b :: _ => (a =? 78) && (b =? 78)
  | _ => false
  end.

Definition MIN_BURSTS_FOR_FULL_MESSAGE : N := 2.

Definition combine (bursts : list bytes) : option msg_result :=
  let '(msg, counts, errs) := estimate_message bursts in
  match msg with
  | [] => None
  | _ =>
    let good := truncate_with_reference msg counts MIN_BURSTS_FOR_FULL_MESSAGE in
    match message_try_from_bytes good errs counts with
    | Ok m => Some (Ok m)
    | Err e =>
      if message_prefix_is_eom msg then Some (Ok EOM)
      else match good with
           | [] => None
           | _ => Some (Err e)
           end
    end
  end.
