(** Model of crates/sameold/src/receiver/assembler.rs and timeddata.rs. *)
From Sameold Require Import Base.Bytes Model.Header Model.Combiner.
From Sameold Require Gen.Generated.

Definition MAX_INTERBURST_SYMBOLS : N := Generated.MAX_INTERBURST_SYMBOLS.
Definition MAX_HISTORY_DURATION : N := Generated.MAX_HISTORY_DURATION.

Record timed (A : Type) := mkTimed { t_data : A; t_deadline : N }.
Arguments mkTimed {A} _ _.
Arguments t_data {A} _.
Arguments t_deadline {A} _.

Definition is_expired_at {A} (t : timed A) (now : N) : bool := t_deadline t <=? now.

Record asm := mkAsm {
  a_history : list (timed bytes);          (* oldest first *)
  a_pending : option (timed msg_result);
  a_previous : option (timed message)
}.

Definition asm_init : asm := mkAsm [] None None.

Inductive transport := TIdle | TAssembling | TMessage (r : msg_result).

(** keep the unexpired entries, then only the two newest *)
Fixpoint keep_last2 {A} (l : list A) : list A :=
  match l with
  | _ :: ((_ :: _ :: _) as r) => keep_last2 r
  | _ => l
  end.

Definition prune_history (h : list (timed bytes)) (now : N) : list (timed bytes) :=
  keep_last2 (filter (fun e => negb (is_expired_at e now)) h).

Definition prune_previous (p : option (timed message)) (now : N) : option (timed message) :=
  match p with
  | Some m => if is_expired_at m now then None else p
  | None => None
  end.

(** [PendingResult::accept]; returns the new slot *)
Definition pending_accept (p : option (timed msg_result)) (msg : msg_result) (now : N)
  : option (timed msg_result) :=
  let new :=
    match msg with
    | Ok EOM => mkTimed msg now
    | _ => mkTimed msg (now + MAX_INTERBURST_SYMBOLS)
    end in
  match p with
  | None => Some new
  | Some old =>
    let replace :=
      match t_data old, msg with
      | Err _, _ => true
      | Ok EOM, Ok (SOM _) => true
      | Ok (SOM o), Ok (SOM n) => h_voting o <=? h_voting n
      | _, _ => false
      end in
    if replace then Some new else Some old
  end.

(** [PendingResult::poll]; returns (output, new slot) *)
Definition pending_poll (p : option (timed msg_result)) (now : N)
  : option msg_result * option (timed msg_result) :=
  match p with
  | Some t => if is_expired_at t now then (Some (t_data t), None) else (None, p)
  | None => (None, None)
  end.

Definition asm_idle (s : asm) (now : N) : transport * asm :=
  let h := prune_history (a_history s) now in
  match pending_poll (a_pending s) now with
  | (Some (Ok m), p) =>
    (TMessage (Ok m), mkAsm h p (Some (mkTimed m (now + MAX_HISTORY_DURATION))))
  | (Some (Err e), p) => (TMessage (Err e), mkAsm h p (a_previous s))
  | (None, p) =>
    (match h with [] => TIdle | _ => TAssembling end, mkAsm h p (a_previous s))
  end.

Definition is_not_duplicate (prev : option (timed message)) (m : message) : bool :=
  match prev with
  | Some p => negb (list_eqb (message_as_str (t_data p)) (message_as_str m))
  | None => true
  end.

Definition deduplicate (prev : option (timed message)) (r : option msg_result) : option msg_result :=
  match r with
  | None => None
  | Some (Ok m) => if is_not_duplicate prev m then Some (Ok m) else None
  | Some (Err e) => Some (Err e)
  end.

Definition asm_assemble (s : asm) (burst : bytes) (now : N) : transport * asm :=
  match burst with
  | [] => asm_idle s now
  | _ =>
    let h := prune_history (a_history s) now in
    let prev := prune_previous (a_previous s) now in
    let h' := h ++ [mkTimed (firstn MAX_MESSAGE_LENGTH burst) (now + MAX_HISTORY_DURATION)] in
    let pend :=
      match deduplicate prev (combine (map t_data h')) with
      | Some msg => pending_accept (a_pending s) msg now
      | None => a_pending s
      end in
    asm_idle (mkAsm h' pend prev) now
  end.

(** equality as derived [PartialEq] decides it *)
Definition header_eqb (a b : header) : bool :=
  list_eqb (h_text a) (h_text b) && (h_offset_time a =? h_offset_time b)%nat
  && (h_parity a =? h_parity b) && (h_voting a =? h_voting b).
Definition err_eqb (a b : decode_err) : bool :=
  match a, b with
  | UnrecognizedPrefix, UnrecognizedPrefix | NotAscii, NotAscii | Malformed, Malformed => true
  | _, _ => false
  end.
Definition msg_result_eqb (a b : msg_result) : bool :=
  match a, b with
  | Ok EOM, Ok EOM => true
  | Ok (SOM x), Ok (SOM y) => header_eqb x y
  | Err x, Err y => err_eqb x y
  | _, _ => false
  end.
Definition transport_eqb (a b : transport) : bool :=
  match a, b with
  | TIdle, TIdle | TAssembling, TAssembling => true
  | TMessage x, TMessage y => msg_result_eqb x y
  | _, _ => false
  end.
