(** Bit-exact model (IEEE-754 binary32, Flocq, round to nearest even) of the two float components that sit in front of
    everything else in the receiver and whose STATE outlives a burst:
      agc.rs      Agc::{new, reset, lock, input}
      dcblock.rs  MovingAverage::{new, reset, filter}, DCBlocker::{new, reset, filter}
    Each Rust f32 operation (one rounding per [*], [+], [-], [/]; no fused operations) is one Flocq operation.  No proofs
    here; the definitions are evaluated with [vm_compute] against the implementation (hooks [Agc], [DCBlocker]) on every run. *)
From Coq Require Import ZArith NArith Bool List.
From Flocq Require Import Core BinarySingleNaN.
From Sameold Require Import Model.ConfigSizes.
Import ListNotations.
Open Scope Z_scope.

Definition fadd : f32 -> f32 -> f32 := Bplus mode_NE.
Definition fsub : f32 -> f32 -> f32 := Bminus mode_NE.
Definition fmul : f32 -> f32 -> f32 := Bmult mode_NE.
Definition fdiv : f32 -> f32 -> f32 := Bdiv mode_NE.
Definition fabs : f32 -> f32 := Babs.
Definition flt : f32 -> f32 -> bool := Bltb.      (* [<], false when either side is NaN *)
Definition fle : f32 -> f32 -> bool := Bleb.
Definition f0 : f32 := B754_zero false.
Definition f1 : f32 := of_Z 1.

(** [f32::max], [f32::min]: if one argument is NaN the other is returned *)
Definition fmaxnum (a b : f32) : f32 :=
  match a, b with
  | B754_nan, _ => b
  | _, B754_nan => a
  | _, _ => if flt a b then b else a
  end.
Definition fminnum (a b : f32) : f32 :=
  match a, b with
  | B754_nan, _ => b
  | _, B754_nan => a
  | _, _ => if flt b a then b else a
  end.

(** [f32::clamp(self, min, max)]: asserts [min <= max] (callers guarantee it, see [clamp_guard]); a NaN passes through *)
Definition clamp_guard (lo hi : f32) : bool := fle lo hi.
Definition fclamp (x lo hi : f32) : f32 :=
  let x1 := if flt x lo then lo else x in
  if flt hi x1 then hi else x1.

(** the 32 bits of a value (one canonical NaN) *)
Definition to_bits (x : f32) : Z :=
  match x with
  | B754_zero s => if s then 2147483648 else 0
  | B754_infinity s => (if s then 2147483648 else 0) + 2139095040
  | B754_nan => 2143289344
  | B754_finite s m e _ =>
    (if s then 2147483648 else 0) +
    (if Z.pos m <? 8388608 then Z.pos m else (e + 150) * 8388608 + (Z.pos m - 8388608))
  end.

(** * agc.rs *)
Record agc := mkAgc { a_bw : f32; a_min : f32; a_max : f32; a_locked : bool; a_gain : f32 }.

Definition agc_initial_gain (lo hi : f32) : f32 := fmaxnum lo (fminnum f1 hi).
Definition agc_new (bw lo hi : f32) : agc := mkAgc (fclamp bw f0 f1) lo hi false (agc_initial_gain lo hi).
Definition agc_reset (a : agc) : agc :=
  mkAgc (a_bw a) (a_min a) (a_max a) false (agc_initial_gain (a_min a) (a_max a)).
Definition agc_lock (a : agc) (l : bool) : agc := mkAgc (a_bw a) (a_min a) (a_max a) l (a_gain a).

(** [Agc::input]:  out = input * gain;  gain += (!locked as f32) * (1.0 - |out|) * bandwidth;  gain = clamp(gain) *)
Definition agc_input (a : agc) (x : f32) : agc * f32 :=
  let out := fmul x (a_gain a) in
  let u := if a_locked a then f0 else f1 in
  let g := fadd (a_gain a) (fmul (fmul u (fsub f1 (fabs out))) (a_bw a)) in
  (mkAgc (a_bw a) (a_min a) (a_max a) (a_locked a) (fclamp g (a_min a) (a_max a)), out).

(** * dcblock.rs *)
(** the window, oldest sample first *)
Record mavg := mkMavg { m_win : list f32; m_inv : f32; m_sum : f32; m_since : nat }.

Definition mavg_new (len : nat) : mavg :=
  mkMavg (repeat f0 len) (fdiv f1 (of_Z (Z.of_nat len))) f0 0.
Definition mavg_reset (m : mavg) : mavg := mkMavg (repeat f0 (length (m_win m))) (m_inv m) f0 0.

(** [MovingAverage::filter] as it was BEFORE the repair (running sum only) *)
Definition mavg_filter_old (m : mavg) (x : f32) : mavg * (f32 * f32) :=
  match m_win m with
  | [] => (m, (f0, f0))                       (* unreachable: [len > 0] is asserted by the constructor *)
  | aged :: rest =>
    let win := rest ++ [x] in
    let s := fadd (m_sum m) (fsub x aged) in
    (mkMavg win (m_inv m) s (m_since m), (fmul s (m_inv m), hd f0 win))
  end.

(** [MovingAverage::filter]: running sum, recomputed from the window once per window length *)
Definition mavg_filter (m : mavg) (x : f32) : mavg * (f32 * f32) :=
  match m_win m with
  | [] => (m, (f0, f0))
  | aged :: rest =>
    let win := rest ++ [x] in
    let s1 := fadd (m_sum m) (fsub x aged) in
    let since := S (m_since m) in
    let refresh := Nat.leb (length win) since in
    let s := if refresh then fold_left fadd win f0 else s1 in
    (mkMavg win (m_inv m) s (if refresh then O else since), (fmul s (m_inv m), hd f0 win))
  end.

Record dcb := mkDcb { d_ff : mavg; d_fb : mavg }.
Definition dcb_new (len : nat) : dcb := mkDcb (mavg_new len) (mavg_new len).
Definition dcb_reset (d : dcb) : dcb := mkDcb (mavg_reset (d_ff d)) (mavg_reset (d_fb d)).

Definition dcb_filter_with (step : mavg -> f32 -> mavg * (f32 * f32)) (d : dcb) (x : f32) : dcb * f32 :=
  let '(ff, (ma0, sig)) := step (d_ff d) x in
  let '(fb, (ma1, _)) := step (d_fb d) ma0 in
  let u := if Nat.ltb 1 (length (m_win ff)) then f1 else f0 in
  (mkDcb ff fb, fsub sig (fmul u ma1)).

(** [DCBlocker::filter] *)
Definition dcb_filter : dcb -> f32 -> dcb * f32 := dcb_filter_with mavg_filter.
Definition dcb_filter_old : dcb -> f32 -> dcb * f32 := dcb_filter_with mavg_filter_old.

(** runs, for the correspondence check and the theorems *)
Fixpoint dcb_run_with step (d : dcb) (xs : list f32) : dcb * list f32 :=
  match xs with
  | [] => (d, [])
  | x :: r => let '(d1, y) := dcb_filter_with step d x in let '(d2, ys) := dcb_run_with step d1 r in (d2, y :: ys)
  end.
Definition dcb_run := dcb_run_with mavg_filter.
Definition dcb_run_old := dcb_run_with mavg_filter_old.

(** AGC operations of a scripted run: an input sample, lock/unlock, reset *)
Inductive agc_op := AIn (x : f32) | ALock (l : bool) | AReset.
Fixpoint agc_run (a : agc) (ops : list agc_op) : agc * list f32 :=
  match ops with
  | [] => (a, [])
  | AIn x :: r => let '(a1, y) := agc_input a x in let '(a2, ys) := agc_run a1 r in (a2, y :: ys)
  | ALock l :: r => agc_run (agc_lock a l) r
  | AReset :: r => agc_run (agc_reset a) r
  end.

(** what the correspondence check prints: the bits of every output, then the bits of the gain *)
Definition agc_trace (bw lo hi : Z) (ops : list agc_op) : list Z :=
  let '(a, ys) := agc_run (agc_new (of_bits bw) (of_bits lo) (of_bits hi)) ops in
  map to_bits ys ++ [to_bits (a_gain a)].
Definition dcb_trace (len : nat) (xs : list Z) : list Z :=
  map to_bits (snd (dcb_run (dcb_new len) (map of_bits xs))).
Definition dcb_trace_old (len : nat) (xs : list Z) : list Z :=
  map to_bits (snd (dcb_run_old (dcb_new len) (map of_bits xs))).

(** * symsync.rs: ZeroCrossingTed and TimingLoop (the PI loop gains [alpha], [beta] come from libm's expf / sinhf and are data here) *)
Definition fsignum (x : f32) : f32 :=            (* f32::signum: 1.0 for +0 and above, -1.0 for -0 and below, NaN for NaN *)
  match x with
  | B754_nan => B754_nan
  | B754_zero s | B754_infinity s | B754_finite s _ _ _ => if s then Bopp f1 else f1
  end.
Definition fhalf : f32 := of_me 1 (-1).
Definition fneg (x : f32) : f32 := Bopp x.

Record ted := mkTed { td_h0 : f32; td_h1 : f32; td_h2 : f32; td_count : bool }.      (* history oldest first; sample_counter in {0, 1} *)
Definition ted_new : ted := mkTed f0 f0 f0 false.
(** [ZeroCrossingTed::input]: push; counter = (counter + 1) % 2; an estimate (zero, sym, err) when the counter is 1 *)
Definition ted_input (t : ted) (x : f32) : ted * option (f32 * f32 * f32) :=
  let h0 := td_h1 t in let h1 := td_h2 t in let h2 := x in
  let c := negb (td_count t) in
  (mkTed h0 h1 h2 c,
   if c then Some (h1, h2, fmul h1 (fsub (fsignum h0) (fsignum h2))) else None).

Record tloop := mkTloop {
  tl_spt : f32; tl_pmin : f32; tl_pmax : f32; tl_alpha : f32; tl_beta : f32; tl_pavg : f32; tl_pinst : f32; tl_ted : ted }.

Definition tloop_reset (l : tloop) : tloop :=
  mkTloop (tl_spt l) (tl_pmin l) (tl_pmax l) (tl_alpha l) (tl_beta l) (tl_spt l) (tl_spt l) ted_new.

(** [TimingLoop::advance_loop] *)
Definition tloop_advance (l : tloop) (offset : f32) (sym : option (f32 * f32 * f32)) : tloop * f32 :=
  let offset := fclamp offset (fneg fhalf) fhalf in
  match sym with
  | Some (_, _, e) =>
    let err := fclamp (fsub e (fdiv offset (tl_spt l))) (fneg f1) f1 in
    let pavg := fclamp (fadd (tl_pavg l) (fmul (tl_beta l) err)) (tl_pmin l) (tl_pmax l) in
    let pi0 := fadd (fadd pavg (fmul (tl_alpha l) err)) offset in
    let pinst := if flt pi0 f0 then pavg else pi0 in
    (mkTloop (tl_spt l) (tl_pmin l) (tl_pmax l) (tl_alpha l) (tl_beta l) pavg pinst (tl_ted l), pinst)
  | None =>
    let pinst := fadd (tl_pinst l) offset in
    (mkTloop (tl_spt l) (tl_pmin l) (tl_pmax l) (tl_alpha l) (tl_beta l) (tl_pavg l) pinst (tl_ted l), pinst)
  end.

(** [TimingLoop::input] *)
Definition tloop_input (l : tloop) (sample offset : f32) : tloop * (f32 * option (f32 * f32 * f32)) :=
  let '(t, sym) := ted_input (tl_ted l) sample in
  let l1 := mkTloop (tl_spt l) (tl_pmin l) (tl_pmax l) (tl_alpha l) (tl_beta l) (tl_pavg l) (tl_pinst l) t in
  let '(l2, p) := tloop_advance l1 offset sym in
  (l2, (p, sym)).

Fixpoint tloop_run (l : tloop) (ins : list (f32 * f32)) : tloop * list f32 :=
  match ins with
  | [] => (l, [])
  | (s, o) :: r => let '(l1, (p, _)) := tloop_input l s o in let '(l2, ps) := tloop_run l1 r in (l2, p :: ps)
  end.

(** what the correspondence check prints: the period returned by every call and the symbol estimate's error (0 when none) *)
Definition tloop_trace (spt pmin pmax alpha beta : Z) (ins : list (Z * Z)) : list Z :=
  let l0 := mkTloop (of_bits spt) (of_bits pmin) (of_bits pmax) (of_bits alpha) (of_bits beta) (of_bits spt) (of_bits spt) ted_new in
  let fix go l ins := match ins with
    | [] => [to_bits (tl_pavg l)]
    | (s, o) :: r => let '(l1, (p, sym)) := tloop_input l (of_bits s) (of_bits o) in
                     to_bits p :: (match sym with Some (_, _, e) => to_bits e | None => 0 end) :: go l1 r
    end in go l0 ins.
