(** Model of crates/sameold/src/message.rs: header grammar check,
    constructors, accessors and [Message::try_from].  No proofs here. *)
From Sameold Require Import Base.Bytes.

(** * Character classes *)
Definition is_upper (b : N) : bool := (65 <=? b) && (b <=? 90).
Definition is_lower (b : N) : bool := (97 <=? b) && (b <=? 122).
Definition is_alpha (b : N) : bool := is_upper b || is_lower b.
Definition is_digit (b : N) : bool := (48 <=? b) && (b <=? 57).
Definition is_ascii (s : bytes) : bool := forallb (fun b => b <? 128) s.

Definition DASH : N := 45.
Definition PLUS : N := 43.
Definition NEWLINE : N := 10.
Definition PREFIX_MESSAGE_START : bytes := [90; 67; 90; 67; 45].   (* "ZCZC-" *)
Definition PREFIX_MESSAGE_END : bytes := [78; 78; 78; 78].          (* "NNNN" *)
Definition PREFIX_EOM2 : bytes := [78; 78].                         (* "NN" *)

(** * UTF-8 validity, as [std::str::from_utf8] decides it *)
Definition is_cont (b : N) : bool := (128 <=? b) && (b <=? 191).
Definition in_range (lo hi b : N) : bool := (lo <=? b) && (b <=? hi).

Fixpoint valid_utf8 (s : bytes) : bool :=
  match s with
  | [] => true
  | b0 :: r0 =>
    if b0 <? 128 then valid_utf8 r0
    else if in_range 194 223 b0 then
      match r0 with b1 :: r1 => is_cont b1 && valid_utf8 r1 | _ => false end
    else if in_range 224 239 b0 then
      match r0 with
      | b1 :: b2 :: r2 =>
        (if b0 =? 224 then in_range 160 191 b1
         else if b0 =? 237 then in_range 128 159 b1
         else is_cont b1) && is_cont b2 && valid_utf8 r2
      | _ => false
      end
    else if in_range 240 244 b0 then
      match r0 with
      | b1 :: b2 :: b3 :: r3 =>
        (if b0 =? 240 then in_range 144 191 b1
         else if b0 =? 244 then in_range 128 143 b1
         else is_cont b1) && is_cont b2 && is_cont b3 && valid_utf8 r3
      | _ => false
      end
    else false
  end.

(** * [check_header]: explicit leftmost-first matcher for
    [^ZCZC-[[:alpha:]]{3}-[[:alpha:]]{3}(-[0-9]{6})+(\+[0-9]{4}-[0-9]{7}-.{3,8}-)]
    on ASCII input.  Returns (offset of '+', end of match). *)

Fixpoint strip_prefix (pre s : bytes) : option bytes :=
  match pre with
  | [] => Some s
  | p :: pre' =>
    match s with
    | c :: s' => if p =? c then strip_prefix pre' s' else None
    | [] => None
    end
  end.

Fixpoint take_n (p : N -> bool) (n : nat) (s : bytes) : option bytes :=
  match n with
  | O => Some s
  | S k =>
    match s with
    | c :: r => if p c then take_n p k r else None
    | [] => None
    end
  end.

(** greedy [(-[0-9]{6})*]; returns the number of groups and the rest *)
Fixpoint take_locs (s : bytes) : nat * bytes :=
  match s with
  | c :: d1 :: d2 :: d3 :: d4 :: d5 :: d6 :: r =>
    if (c =? DASH) && is_digit d1 && is_digit d2 && is_digit d3
       && is_digit d4 && is_digit d5 && is_digit d6
    then let '(n, r') := take_locs r in (S n, r')
    else (O, s)
  | _ => (O, s)
  end.

(** [.{k}-] at the head of [s]: k bytes, none a newline, then a dash *)
Definition call_ok (s : bytes) (k : nat) : bool :=
  (k <=? length s)%nat
  && forallb (fun c => negb (c =? NEWLINE)) (firstn k s)
  && match nth_error s k with Some c => c =? DASH | None => false end.

(** greedy [.{3,8}-]: the longest admissible callsign wins *)
Definition find_call (s : bytes) : option nat :=
  find (call_ok s) [8; 7; 6; 5; 4; 3]%nat.

Definition obnd {A B} (o : option A) (f : A -> option B) : option B :=
  match o with Some a => f a | None => None end.

Definition check_header (s : bytes) : option (nat * nat) :=
  obnd (strip_prefix PREFIX_MESSAGE_START s) (fun s1 =>
  obnd (take_n is_alpha 3 s1) (fun s2 =>
  obnd (strip_prefix [DASH] s2) (fun s3 =>
  obnd (take_n is_alpha 3 s3) (fun s4 =>
  let '(n, s5) := take_locs s4 in
  match n with
  | O => None
  | S _ =>
    obnd (strip_prefix [PLUS] s5) (fun s6 =>
    obnd (take_n is_digit 4 s6) (fun s7 =>
    obnd (strip_prefix [DASH] s7) (fun s8 =>
    obnd (take_n is_digit 7 s8) (fun s9 =>
    obnd (strip_prefix [DASH] s9) (fun s10 =>
    obnd (find_call s10) (fun k =>
    let ot := (12 + 7 * n)%nat in
    Some (ot, (ot + 14 + k + 1)%nat)))))))
  end)))).

(** * Messages *)
Inductive decode_err := UnrecognizedPrefix | NotAscii | Malformed.

Record header := mkHeader {
  h_text : bytes;
  h_offset_time : nat;
  h_parity : N;
  h_voting : N
}.

Inductive message := SOM (h : header) | EOM.

Inductive result (A : Type) := Ok (a : A) | Err (e : decode_err).
Arguments Ok {A} a.
Arguments Err {A} e.

Definition msg_result := result message.

Definition header_new (s : bytes) : result header :=
  if negb (is_ascii s) then Err NotAscii
  else match check_header s with
       | None => Err Malformed
       | Some (ot, n) => Ok (mkHeader (firstn n s) ot 0 0)
       end.

(** sum of [errs] over the positions that exist in both lists (Rust [zip]) *)
Fixpoint zip_sum {A} (f : N -> N) (xs : list N) (ys : list A) : N :=
  match xs, ys with
  | x :: xs', _ :: ys' => f x + zip_sum f xs' ys'
  | _, _ => 0
  end.

Definition header_new_with_errors (s : bytes) (errs : list N) : result header :=
  match header_new s with
  | Err e => Err e
  | Ok h => Ok (mkHeader (h_text h) (h_offset_time h)
                         (zip_sum (fun e => e) errs (h_text h)) (h_voting h))
  end.

Definition MIN_BURSTS_FOR_VOTING : N := 3.

Definition header_new_with_error_info (s : bytes) (errs counts : list N) : result header :=
  match header_new_with_errors s errs with
  | Err e => Err e
  | Ok h => Ok (mkHeader (h_text h) (h_offset_time h) (h_parity h)
                         (zip_sum (fun c => b2n (MIN_BURSTS_FOR_VOTING <=? c)) counts (h_text h)))
  end.

(** [Message::try_from(String)] — the argument is valid UTF-8 by typing *)
Definition message_try_from_str (s : bytes) : msg_result :=
  if starts_with PREFIX_MESSAGE_START s then
    match header_new s with Ok h => Ok (SOM h) | Err e => Err e end
  else if starts_with PREFIX_EOM2 s then Ok EOM
  else Err UnrecognizedPrefix.

(** [Message::try_from((String, &[u8]))] *)
Definition message_try_from_str_errs (s : bytes) (errs : list N) : msg_result :=
  if starts_with PREFIX_MESSAGE_START s then
    match header_new_with_errors s errs with Ok h => Ok (SOM h) | Err e => Err e end
  else if starts_with PREFIX_EOM2 s then Ok EOM
  else Err UnrecognizedPrefix.

(** [Message::try_from((&[u8], &[u8], &[u8]))] — arbitrary bytes *)
Definition message_try_from_bytes (s : bytes) (errs counts : list N) : msg_result :=
  if negb (valid_utf8 s) then Err NotAscii
  else if starts_with PREFIX_MESSAGE_START s then
    match header_new_with_error_info s errs counts with
    | Ok h => Ok (SOM h) | Err e => Err e end
  else if starts_with PREFIX_EOM2 s then Ok EOM
  else Err UnrecognizedPrefix.

Definition message_as_str (m : message) : bytes :=
  match m with SOM h => h_text h | EOM => PREFIX_MESSAGE_END end.

(** * Accessors, with the panics of slicing and [.expect] made explicit *)
Definition OFFSET_ORG : nat := 5.
Definition OFFSET_EVT : nat := 9.
Definition OFFSET_AREA_START : nat := 13.
Definition OFFSET_FROMPLUS_VALIDTIME : nat := 1.
Definition OFFSET_FROMPLUS_ISSUETIME : nat := 6.
Definition OFFSET_FROMPLUS_CALLSIGN : nat := 14.
Definition OFFSET_FROMEND_CALLSIGN_END : nat := 1.
Definition LOCATION_NATIONAL : bytes := [48; 48; 48; 48; 48; 48].

(** [&s[a..b]] on an ASCII string *)
Definition slice (site : N) (a b : nat) (s : bytes) : outcome bytes :=
  if (a <=? b)%nat && (b <=? length s)%nat
  then Done (firstn (b - a) (skipn a s))
  else Panic site.

(** [str::parse::<uN>()] with maximum value [max]; [None] = [Err] *)
Definition parse_uint (max : N) (s : bytes) : option N :=
  match s with
  | [] => None
  | c :: r =>
    let ds := if c =? PLUS then r else s in
    match ds with
    | [] => None
    | _ =>
      if forallb is_digit ds then
        let v := fold_left (fun a d => a * 10 + (d - 48)) ds 0 in
        if v <=? max then Some v else None
      else None
    end
  end.

Definition expect {A} (site : N) (o : option A) : outcome A :=
  match o with Some a => Done a | None => Panic site end.

Definition originator_str (h : header) : outcome bytes :=
  slice 1 OFFSET_ORG (OFFSET_ORG + 3) (h_text h).

Definition event_str (h : header) : outcome bytes :=
  slice 2 OFFSET_EVT (OFFSET_EVT + 3) (h_text h).

Definition location_str (h : header) : outcome bytes :=
  slice 3 OFFSET_AREA_START (h_offset_time h) (h_text h).

(** [str::split('-')] *)
Fixpoint split_on (sep : N) (cur : bytes) (s : bytes) : list bytes :=
  match s with
  | [] => [rev cur]
  | c :: r => if c =? sep then rev cur :: split_on sep [] r else split_on sep (c :: cur) r
  end.

Definition locations (h : header) : outcome (list bytes) :=
  obind (location_str h) (fun l => Done (split_on DASH [] l)).

Definition valid_duration_fields (h : header) : outcome (N * N) :=
  let a := (h_offset_time h + OFFSET_FROMPLUS_VALIDTIME)%nat in
  obind (slice 4 a (a + 4) (h_text h)) (fun d =>
  obind (slice 5 0 2 d) (fun hs =>
  obind (expect 6 (parse_uint 255 hs)) (fun hh =>
  obind (slice 7 2 4 d) (fun ms =>
  obind (expect 8 (parse_uint 255 ms)) (fun mm =>
  Done (hh, mm)))))).

Definition issue_daytime_fields (h : header) : outcome (N * N * N) :=
  let a := (h_offset_time h + OFFSET_FROMPLUS_ISSUETIME)%nat in
  obind (slice 9 a (a + 7) (h_text h)) (fun d =>
  obind (slice 10 0 3 d) (fun js =>
  obind (expect 11 (parse_uint 65535 js)) (fun jjj =>
  obind (slice 12 3 5 d) (fun hs =>
  obind (expect 13 (parse_uint 255 hs)) (fun hh =>
  obind (slice 14 5 7 d) (fun ms =>
  obind (expect 15 (parse_uint 255 ms)) (fun mm =>
  Done (jjj, hh, mm)))))))).

Definition callsign (h : header) : outcome bytes :=
  let e := length (h_text h) in
  if (e <? OFFSET_FROMEND_CALLSIGN_END)%nat then Panic 16   (* usize underflow *)
  else slice 17 (h_offset_time h + OFFSET_FROMPLUS_CALLSIGN)
                (e - OFFSET_FROMEND_CALLSIGN_END) (h_text h).
