(** Model of [calculate_issue_time], [yo_hms_to_utc], [valid_duration] and
    [is_expired_at] (message.rs), with chrono's calendar rules re-stated. *)
From Coq Require Import ZArith Bool List.
Open Scope Z_scope.

(** chrono 0.4.x [NaiveDate] year range *)
Definition MIN_YEAR : Z := -262143.
Definition MAX_YEAR : Z := 262142.
Definition I32_MIN : Z := -2147483648.
Definition I32_MAX : Z := 2147483647.

Definition is_leap (y : Z) : bool :=
  (y mod 4 =? 0) && (negb (y mod 100 =? 0) || (y mod 400 =? 0)).
Definition year_len (y : Z) : Z := if is_leap y then 366 else 365.

(** days from 0001-01-01 (proleptic Gregorian) to Jan 1 of year [y] *)
Definition days_before_year_abs (y : Z) : Z :=
  let p := y - 1 in 365 * p + p / 4 - p / 100 + p / 400.
(** days from 1970-01-01 to Jan 1 of year [y] *)
Definition days_before_year (y : Z) : Z := days_before_year_abs y - days_before_year_abs 1970.

(** day number (since the Unix epoch) of ordinal day [o] of year [y] *)
Definition day_number (y o : Z) : Z := days_before_year y + o - 1.

(** [NaiveDate::from_yo_opt] *)
Definition from_yo_opt (y o : Z) : option Z :=
  if (MIN_YEAR <=? y) && (y <=? MAX_YEAR) && (1 <=? o) && (o <=? year_len y)
  then Some (day_number y o) else None.

(** [NaiveDate::and_hms_opt] then [Utc.from_utc_datetime]: seconds since the epoch *)
Definition yo_hms_to_utc (y o h m s : Z) : option Z :=
  match from_yo_opt y o with
  | None => None
  | Some d =>
    if (0 <=? h) && (h <? 24) && (0 <=? m) && (m <? 60) && (0 <=? s) && (s <? 60)
    then Some (d * 86400 + h * 3600 + m * 60 + s) else None
  end.

Definition saturating_add1 (y : Z) : Z := Z.min (y + 1) I32_MAX.
Definition saturating_sub1 (y : Z) : Z := Z.max (y - 1) I32_MIN.

(** [calculate_issue_time((day_of_year, hour, minute), (rx_year, rx_day_of_year))] *)
Definition calculate_issue_time (doy h m : Z) (rx_year rx_doy : Z) : option Z :=
  let daydiff := rx_doy - doy in
  let msg_year :=
    if 180 <=? daydiff then saturating_add1 rx_year
    else if daydiff <=? -180 then saturating_sub1 rx_year
    else rx_year in
  yo_hms_to_utc msg_year doy h m 0.

(** [valid_duration]: hours + minutes, in seconds *)
Definition valid_duration_s (hrs mins : Z) : Z := hrs * 3600 + mins * 60.

(** [is_expired_at(now)], with [now] = day (rx_year, rx_doy) + [sod] seconds + [ns] nanoseconds *)
Definition is_expired_at (doy h m : Z) (hrs mins : Z) (rx_year rx_doy sod ns : Z) : bool :=
  match calculate_issue_time doy h m rx_year rx_doy with
  | None => false
  | Some issue =>
    let now_s := day_number rx_year rx_doy * 86400 + sod in
    let exp := issue + valid_duration_s hrs mins in
    (exp <? now_s) || ((exp =? now_s) && (0 <? ns))
  end.
