(** Model of CodeCorrelator + CodeAndPowerSquelch (codesquelch.rs), discrete part:
    driven by the hard bit and the two power comparisons of each symbol. *)
From Sameold Require Import Base.Bytes.
From Sameold Require Gen.Generated.

Definition SYNC_WORD : N := Generated.PREAMBLE_SYNC_WORD.
Definition HISTORY_SYMBOLS : N := 32.     (* sample_history: 64 samples = 32 symbols *)
Definition POWER_HISTORY : nat := 32.

Record sq := mkSq {
  sq_corr : N;              (* CodeCorrelator.data (u32) *)
  sq_fill : N;              (* symbols in sample_history, saturating at 32 *)
  sq_phist : list bool;     (* power_history, oldest first, at most 32 *)
  sq_clock : option N;      (* sample_clock *)
  sq_lock : bool;           (* sync_lock *)
  sq_symcount : N           (* symbol_counter *)
}.

Inductive sqout :=
| SqNoCarrier | SqDropped | SqReading
| SqReady (resync : bool) (hard_byte : N)
| SqPanic.                   (* power_history.front().expect(..) on an empty history *)

Definition sq_init : sq := mkSq 0 0 [] None false 0.

Definition num_bit_errors (sync data : N) : N := popcount (N.lxor sync data).

Definition push_wrapping (l : list bool) (b : bool) : list bool :=
  let l' := l ++ [b] in if (POWER_HISTORY <? length l')%nat then tl l' else l'.

Definition sq_end (s : sq) : sq :=
  mkSq (sq_corr s) (sq_fill s) (sq_phist s) None false (sq_symcount s).

Definition sq_set_lock (s : sq) (l : bool) : sq :=
  mkSq (sq_corr s) (sq_fill s) (sq_phist s) (sq_clock s) l (sq_symcount s).

Definition sq_reset (s : sq) : sq := sq_init.

Definition sq_input (max_errors : N) (s : sq) (bit popen pclose : bool) : sqout * sq :=
  let corr := N.lor (N.shiftr (sq_corr s) 1) (N.shiftl (b2n bit) 31) in
  let err := num_bit_errors SYNC_WORD corr in
  let ph := push_wrapping (sq_phist s) pclose in
  let cnt := sq_symcount s + 1 in
  let fill := N.min (sq_fill s + 1) HISTORY_SYMBOLS in
  let base c l := mkSq corr fill ph c l cnt in
  if fill <? HISTORY_SYMBOLS then (SqNoCarrier, base (sq_clock s) (sq_lock s))
  else
    let emit (adjusted : bool) (clock : option N) :=
      match clock with
      | None => (SqNoCarrier, base None (sq_lock s))
      | Some 0 => (SqReady adjusted (corr mod 256), base (Some 1) (sq_lock s))
      | Some c => (SqReading, base (Some ((c + 1) mod 8)) (sq_lock s))
      end in
    if negb (sq_lock s) && (err <=? max_errors) && popen then
      match sq_clock s with
      | None => emit true (Some 0)
      | Some 0 => emit false (Some 0)
      | Some _ => emit true (Some 0)
      end
    else
      match sq_clock s with
      | Some _ =>
        match ph with
        | [] => (SqPanic, base (sq_clock s) (sq_lock s))
        | front :: _ =>
          if negb front then (SqDropped, base None false)
          else emit false (sq_clock s)
        end
      | None => emit false (sq_clock s)
      end.
