(** Model of samedec's sample source (crates/samedec/src/main.rs):
      [std::iter::from_fn(|| Some(inbuf.read_i16::<NativeEndian>().ok()?))]
    over a [BufReader] on a file or on standard input.  The underlying source is the list of byte
    chunks its successive [read()] calls return (each non-empty; the end of the list is end of
    file).  [read_i16] is [read_exact] of two bytes: it refills the buffer whenever it is empty and
    fails with UnexpectedEof — dropping a lone last byte — when the source is exhausted.  Bytes are
    taken one at a time, which is equivalent to [BufReader::read]'s copy of min(needed, buffered).
    No proofs here. *)
From Sameold Require Import Base.Bytes.
Local Open Scope N_scope.

Record reader := mkReader { rd_buf : list N; rd_src : list (list N) }.

(** [fill_buf]: when the buffer is empty, one [read()] of the underlying source *)
Definition fill (r : reader) : reader :=
  match rd_buf r with
  | [] => match rd_src r with [] => r | c :: rest => mkReader c rest end
  | _ => r
  end.

Definition next_byte (r : reader) : option (N * reader) :=
  let r1 := fill r in
  match rd_buf r1 with
  | [] => None
  | b :: rest => Some (b, mkReader rest (rd_src r1))
  end.

(** little-endian two's complement (NativeEndian on the supported targets) *)
Definition i16_of (b0 b1 : N) : Z :=
  let u := Z.of_N (b0 + 256 * b1) in if (u <? 32768)%Z then u else (u - 65536)%Z.

(** one call of the closure: a sample, or None (and then the iterator is finished) *)
Definition next_sample (r : reader) : option Z * reader :=
  match next_byte r with
  | None => (None, fill r)
  | Some (b0, r1) =>
    match next_byte r1 with
    | None => (None, fill r1)
    | Some (b1, r2) => (Some (i16_of b0 b1), r2)
    end
  end.

(** everything the iterator yields until its first None *)
Fixpoint all_samples (fuel : nat) (r : reader) : list Z :=
  match fuel with
  | O => []
  | S f => match next_sample r with (Some s, r') => s :: all_samples f r' | (None, _) => [] end
  end.

(** specification: the byte stream as a whole, two bytes per sample, a lone last byte ignored *)
Fixpoint samples_of_bytes (fuel : nat) (bs : list N) : list Z :=
  match fuel with
  | O => []
  | S f => match bs with b0 :: b1 :: rest => i16_of b0 b1 :: samples_of_bytes f rest | _ => [] end
  end.
