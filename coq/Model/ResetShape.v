(** Structural model of every field of [SameReceiver] and its components (64 leaf paths of the
    derived [Debug] rendering), of the constructors ([From<&SameReceiverBuilder>] and each
    component's [new]) and of every [reset()] method.  Field VALUES are opaque tokens ([N]); the
    floating-point functions that the constructors and the reset paths share are parameters.
    No proofs here.  The correspondence check instantiates the tokens with the interned text of
    the implementation's own [Debug] output. *)
From Sameold Require Import Base.Bytes.

Section Shape.
  (** tokens for the constants the code writes *)
  Variables (zero one : N)                 (* 0.0f32, 1.0f32 *)
            (int0 : N)                     (* integer 0 *)
            (ffalse : N) (none : N) (empty : N)
            (idle_framer : N)              (* framing::State::Idle *)
            (asm_empty : N)                (* PendingResult::Empty *)
            (no_carrier : N)               (* LinkState::NoCarrier *)
            (tr_idle : N)                  (* TransportState::Idle *)
            (enabled_feedback : N).        (* EqualizerState::EnabledFeedback *)
  (** functions shared by constructors and reset paths *)
  Variable initial_gain : N -> N -> N.     (* Agc::initial_gain(min, max) *)
  Variable alphabeta : N -> N * N.         (* symsync::compute_loop_alphabeta(bandwidth) *)
  Variable is_training : N -> bool.        (* Equalizer::is_training on the mode token *)

  Record mavg := mkMavg { ma_window : list N; ma_inv_len : N; ma_sum : N; ma_since : N }.   (* since_refresh: fix 2ef7c73 *)
  Record agc := mkAgc { ag_bandwidth : N; ag_min : N; ag_max : N; ag_locked : N; ag_gain : N }.
  Record demod := mkDemod { de_window : list N; de_mark : N; de_space : N }.
  Record symsync := mkSym {
    sy_spt : N; sy_pmin : N; sy_pmax : N; sy_alpha : N; sy_beta : N; sy_pavg : N; sy_pinst : N;
    sy_ted_hist : list N; sy_ted_count : N }.
  Record squelch := mkSquelch {
    sq_max_errors : N; sq_popen : N; sq_pclose : N; sq_sync_to : N; sq_data : N;
    sq_pt_bw : N; sq_pt_power : N; sq_sample_hist : N; sq_power_hist : N;
    sq_symbols : N; sq_sample_clock : N; sq_sync_lock : N }.
  Record equalizer := mkEq {
    eq_relax : N; eq_regul : N; eq_train_to : N;
    eq_ff_coeff : list N; eq_fb_coeff : list N; eq_ff_wind : list N; eq_fb_wind : list N; eq_mode : N }.
  Record framer := mkFramer { fr_state : N; fr_last_burst : N; fr_max_prefix : N; fr_max_invalid : N }.
  Record assembler := mkAssembler { as_history : N; as_state : N; as_previous : N }.

  Record receiver := mkReceiver {
    x_dc_ff : mavg; x_dc_fb : mavg; x_agc : agc; x_demod : demod; x_sym : symsync;
    x_squelch : squelch; x_eq : equalizer; x_framer : framer; x_asm : assembler;
    x_bw_unlocked : N; x_bw_locked : N; x_rate : N;
    x_sample_counter : N; x_link : N; x_transport : N; x_queue : N;
    x_ted_clock : N; x_until_ted : N; x_force_eom : N }.

  (** [Window::reset]: same length, all zero *)
  Definition zeros (w : list N) : list N := map (fun _ => zero) w.
  (** [FilterCoeff::identity]: all zero except a one in the last place *)
  Fixpoint identity (w : list N) : list N :=
    match w with
    | [] => []
    | [_] => [one]
    | _ :: r => zero :: identity r
    end.

  (** * reset() methods, statement by statement *)
  Definition mavg_reset (m : mavg) : mavg := mkMavg (zeros (ma_window m)) (ma_inv_len m) zero int0.
  Definition agc_reset (a : agc) : agc :=
    mkAgc (ag_bandwidth a) (ag_min a) (ag_max a) ffalse (initial_gain (ag_min a) (ag_max a)).
  Definition demod_reset (d : demod) : demod := mkDemod (zeros (de_window d)) (de_mark d) (de_space d).
  Definition sym_set_bandwidth (s : symsync) (bw : N) : symsync :=
    let '(a, b) := alphabeta bw in
    mkSym (sy_spt s) (sy_pmin s) (sy_pmax s) a b (sy_pavg s) (sy_pinst s) (sy_ted_hist s) (sy_ted_count s).
  Definition sym_reset (s : symsync) : symsync :=
    mkSym (sy_spt s) (sy_pmin s) (sy_pmax s) (sy_alpha s) (sy_beta s) (sy_spt s) (sy_spt s)
          (zeros (sy_ted_hist s)) int0.
  Definition squelch_reset (q : squelch) : squelch :=
    mkSquelch (sq_max_errors q) (sq_popen q) (sq_pclose q) (sq_sync_to q) int0
              (sq_pt_bw q) zero empty empty int0 none ffalse.
  Definition eq_reset (e : equalizer) : equalizer :=
    mkEq (eq_relax e) (eq_regul e) (eq_train_to e)
         (identity (eq_ff_coeff e)) (identity (eq_fb_coeff e)) (zeros (eq_ff_wind e)) (zeros (eq_fb_wind e))
         (if is_training (eq_mode e) then enabled_feedback else eq_mode e).
  Definition framer_reset (f : framer) : framer := mkFramer idle_framer int0 (fr_max_prefix f) (fr_max_invalid f).
  Definition assembler_reset (a : assembler) : assembler := mkAssembler empty asm_empty none.

  (** [SameReceiver::reset] *)
  Definition receiver_reset (x : receiver) : receiver :=
    let sym := sym_reset (sym_set_bandwidth (x_sym x) (x_bw_unlocked x)) in
    mkReceiver (mavg_reset (x_dc_ff x)) (mavg_reset (x_dc_fb x)) (agc_reset (x_agc x)) (demod_reset (x_demod x))
               sym (squelch_reset (x_squelch x)) (eq_reset (x_eq x)) (framer_reset (x_framer x))
               (assembler_reset (x_asm x))
               (x_bw_unlocked x) (x_bw_locked x) (x_rate x)
               int0 no_carrier tr_idle empty int0 (sy_spt sym) none.

  (** * Constructors.  What they compute from the builder is a record of parameters: the
      float-valued ones are whatever the float arithmetic produced (tokens), the lengths are the
      window lengths. *)
  Record params := mkParams {
    p_dc_len : nat; p_dc_inv_len : N;
    p_agc_bw : N; p_gmin : N; p_gmax : N;
    p_demod_len : nat; p_mark : N; p_space : N;
    p_spt : N; p_pmin : N; p_pmax : N;
    p_max_errors : N; p_popen : N; p_pclose : N; p_sync_to : N; p_pt_bw : N;
    p_relax : N; p_regul : N; p_train_to : N; p_nff : nat; p_nfb : nat;
    p_max_prefix : N; p_max_invalid : N;
    p_bw_unlocked : N; p_bw_locked : N; p_rate : N }.

  Definition zeros_n (n : nat) : list N := repeat zero n.
  Definition identity_n (n : nat) : list N := identity (repeat zero n).

  Definition fresh (p : params) : receiver :=
    let '(a, b) := alphabeta (p_bw_unlocked p) in
    mkReceiver
      (mkMavg (zeros_n (p_dc_len p)) (p_dc_inv_len p) zero int0)
      (mkMavg (zeros_n (p_dc_len p)) (p_dc_inv_len p) zero int0)
      (mkAgc (p_agc_bw p) (p_gmin p) (p_gmax p) ffalse (initial_gain (p_gmin p) (p_gmax p)))
      (mkDemod (zeros_n (p_demod_len p)) (p_mark p) (p_space p))
      (mkSym (p_spt p) (p_pmin p) (p_pmax p) a b (p_spt p) (p_spt p) (zeros_n 3) int0)
      (mkSquelch (p_max_errors p) (p_popen p) (p_pclose p) (p_sync_to p) int0 (p_pt_bw p) zero empty empty
                 int0 none ffalse)
      (mkEq (p_relax p) (p_regul p) (p_train_to p) (identity_n (p_nff p)) (identity_n (p_nfb p))
            (zeros_n (p_nff p)) (zeros_n (p_nfb p)) enabled_feedback)
      (mkFramer idle_framer int0 (p_max_prefix p) (p_max_invalid p))
      (mkAssembler empty asm_empty none)
      (p_bw_unlocked p) (p_bw_locked p) (p_rate p)
      int0 no_carrier tr_idle empty int0 (p_spt p) none.

  (** the configuration part of a state: what processing and reset must leave alone *)
  Definition config_of (x : receiver) : params :=
    mkParams (length (ma_window (x_dc_ff x))) (ma_inv_len (x_dc_ff x))
             (ag_bandwidth (x_agc x)) (ag_min (x_agc x)) (ag_max (x_agc x))
             (length (de_window (x_demod x))) (de_mark (x_demod x)) (de_space (x_demod x))
             (sy_spt (x_sym x)) (sy_pmin (x_sym x)) (sy_pmax (x_sym x))
             (sq_max_errors (x_squelch x)) (sq_popen (x_squelch x)) (sq_pclose (x_squelch x))
             (sq_sync_to (x_squelch x)) (sq_pt_bw (x_squelch x))
             (eq_relax (x_eq x)) (eq_regul (x_eq x)) (eq_train_to (x_eq x))
             (length (eq_ff_wind (x_eq x))) (length (eq_fb_wind (x_eq x)))
             (fr_max_prefix (x_framer x)) (fr_max_invalid (x_framer x))
             (x_bw_unlocked x) (x_bw_locked x) (x_rate x).

  (** structural well-formedness that every constructed receiver has and processing keeps:
      the two DC windows have one length, coefficient vectors are as long as their windows,
      the timing detector keeps three samples, the equalizer was never disabled *)
  Definition shape_ok (x : receiver) : Prop :=
    length (ma_window (x_dc_fb x)) = length (ma_window (x_dc_ff x))
    /\ ma_inv_len (x_dc_fb x) = ma_inv_len (x_dc_ff x)
    /\ length (eq_ff_coeff (x_eq x)) = length (eq_ff_wind (x_eq x))
    /\ length (eq_fb_coeff (x_eq x)) = length (eq_fb_wind (x_eq x))
    /\ length (sy_ted_hist (x_sym x)) = 3%nat
    /\ (is_training (eq_mode (x_eq x)) = true \/ eq_mode (x_eq x) = enabled_feedback).
End Shape.
