(** Model of the panic sites reachable from the builder (builder.rs), from
    [From<&SameReceiverBuilder> for SameReceiver] (receiver.rs) and the component constructors,
    and of the data-dependent [clamp]s executed per sample.  Floats are an abstract totally
    ordered type (the domain excludes NaN); [f32::clamp] asserts [min <= max].  The two
    float->usize length computations are parameters here; their binary32 evaluation is in
    Model/ConfigSizes.v.  No proofs here. *)
From Sameold Require Import Base.Bytes.

Section Config.
  Variable F : Type.
  Variable le : F -> F -> bool.
  Variables f0 f1 fhalf fmaxv : F.

  Definition fmin (x y : F) : F := if le x y then x else y.    (* f32::min on non-NaN values *)
  Definition fmax (x y : F) : F := if le x y then y else x.
  Definition lt (x y : F) : bool := negb (le y x).

  (** [f32::clamp(x, lo, hi)]: [assert!(min <= max)], then saturate *)
  Definition fclamp (site : N) (x lo hi : F) : outcome F :=
    if le lo hi then Done (if lt x lo then lo else if lt hi x then hi else x) else Panic site.

  Definition nclamp (site : N) (x lo hi : nat) : outcome nat :=
    if (lo <=? hi)%nat then Done (if (x <? lo)%nat then lo else if (hi <? x)%nat then hi else x) else Panic site.

  Record eqcfg := mkEqcfg { e_nff : nat; e_nfb : nat; e_relax : F; e_regul : F }.
  Record builder := mkBuilder {
    b_rate : N; b_dc : F; b_agc_bw : F; b_gmin : F; b_gmax : F;
    b_tbu : F; b_tbl : F; b_maxdev : F; b_sqo : F; b_sqc : F; b_sqbw : F;
    b_pre : N; b_eq : option eqcfg; b_pfx : N; b_inv : N }.

  Variables (d_dc d_agc d_gmax d_tbu d_tbl d_dev d_sqo d_sqc d_sqbw d_relax d_regul : F).  (* documented defaults *)
  Definition eq_default : eqcfg := mkEqcfg 6 4 d_relax d_regul.
  Definition builder_new (rate : N) : builder :=
    mkBuilder rate d_dc d_agc f0 d_gmax d_tbu d_tbl d_dev d_sqo d_sqc d_sqbw 2 (Some eq_default) 2 5.

  (** setters (each returns the new builder or the panic site) *)
  Definition set_dc (b : builder) (x : F) : outcome builder :=
    Done (mkBuilder (b_rate b) (fmax f0 x) (b_agc_bw b) (b_gmin b) (b_gmax b) (b_tbu b) (b_tbl b) (b_maxdev b)
                    (b_sqo b) (b_sqc b) (b_sqbw b) (b_pre b) (b_eq b) (b_pfx b) (b_inv b)).
  Definition set_agc_bw (b : builder) (x : F) : outcome builder :=
    obind (fclamp 30 x f0 f1) (fun v =>
    Done (mkBuilder (b_rate b) (b_dc b) v (b_gmin b) (b_gmax b) (b_tbu b) (b_tbl b) (b_maxdev b)
                    (b_sqo b) (b_sqc b) (b_sqbw b) (b_pre b) (b_eq b) (b_pfx b) (b_inv b))).
  Definition set_gain_limits (b : builder) (lo hi : F) : outcome builder :=
    Done (mkBuilder (b_rate b) (b_dc b) (b_agc_bw b) lo hi (b_tbu b) (b_tbl b) (b_maxdev b)
                    (b_sqo b) (b_sqc b) (b_sqbw b) (b_pre b) (b_eq b) (b_pfx b) (b_inv b)).
  Definition set_timing_bw (b : builder) (u l : F) : outcome builder :=
    obind (fclamp 31 u f0 f1) (fun u' =>
    obind (fclamp 32 l f0 u') (fun l' =>
    Done (mkBuilder (b_rate b) (b_dc b) (b_agc_bw b) (b_gmin b) (b_gmax b) u' l' (b_maxdev b)
                    (b_sqo b) (b_sqc b) (b_sqbw b) (b_pre b) (b_eq b) (b_pfx b) (b_inv b)))).
  Definition set_maxdev (b : builder) (x : F) : outcome builder :=
    obind (fclamp 33 x f0 fhalf) (fun v =>
    Done (mkBuilder (b_rate b) (b_dc b) (b_agc_bw b) (b_gmin b) (b_gmax b) (b_tbu b) (b_tbl b) v
                    (b_sqo b) (b_sqc b) (b_sqbw b) (b_pre b) (b_eq b) (b_pfx b) (b_inv b))).
  Definition set_squelch_power (b : builder) (o c : F) : outcome builder :=
    obind (fclamp 34 o f0 f1) (fun o' =>
    Done (mkBuilder (b_rate b) (b_dc b) (b_agc_bw b) (b_gmin b) (b_gmax b) (b_tbu b) (b_tbl b) (b_maxdev b)
                    o' (fmin c o) (b_sqbw b) (b_pre b) (b_eq b) (b_pfx b) (b_inv b))).
  Definition set_squelch_bw (b : builder) (x : F) : outcome builder :=
    Done (mkBuilder (b_rate b) (b_dc b) (b_agc_bw b) (b_gmin b) (b_gmax b) (b_tbu b) (b_tbl b) (b_maxdev b)
                    (b_sqo b) (b_sqc b) x (b_pre b) (b_eq b) (b_pfx b) (b_inv b)).
  Definition set_pre (b : builder) (x : N) : outcome builder :=
    Done (mkBuilder (b_rate b) (b_dc b) (b_agc_bw b) (b_gmin b) (b_gmax b) (b_tbu b) (b_tbl b) (b_maxdev b)
                    (b_sqo b) (b_sqc b) (b_sqbw b) x (b_eq b) (b_pfx b) (b_inv b)).
  Definition set_pfx (b : builder) (x : N) : outcome builder :=
    Done (mkBuilder (b_rate b) (b_dc b) (b_agc_bw b) (b_gmin b) (b_gmax b) (b_tbu b) (b_tbl b) (b_maxdev b)
                    (b_sqo b) (b_sqc b) (b_sqbw b) (b_pre b) (b_eq b) (N.min x 7) (b_inv b)).
  Definition set_inv (b : builder) (x : N) : outcome builder :=
    Done (mkBuilder (b_rate b) (b_dc b) (b_agc_bw b) (b_gmin b) (b_gmax b) (b_tbu b) (b_tbl b) (b_maxdev b)
                    (b_sqo b) (b_sqc b) (b_sqbw b) (b_pre b) (b_eq b) (b_pfx b) x).
  Definition set_eq (b : builder) (e : option eqcfg) : outcome builder :=
    Done (mkBuilder (b_rate b) (b_dc b) (b_agc_bw b) (b_gmin b) (b_gmax b) (b_tbu b) (b_tbl b) (b_maxdev b)
                    (b_sqo b) (b_sqc b) (b_sqbw b) (b_pre b) e (b_pfx b) (b_inv b)).

  (** [EqualizerBuilder] setters *)
  Definition eq_set_order (e : eqcfg) (nff nfb : nat) : outcome eqcfg :=
    let nff' := Nat.max nff 1 in
    obind (nclamp 35 nfb 1 nff') (fun nfb' => Done (mkEqcfg nff' nfb' (e_relax e) (e_regul e))).
  Definition eq_set_relax (e : eqcfg) (x : F) : outcome eqcfg :=
    obind (fclamp 36 x f0 f1) (fun v => Done (mkEqcfg (e_nff e) (e_nfb e) v (e_regul e))).
  Definition eq_set_regul (e : eqcfg) (x : F) : outcome eqcfg :=
    obind (fclamp 37 x f0 fmaxv) (fun v => Done (mkEqcfg (e_nff e) (e_nfb e) (e_relax e) v)).

  (** one call on the builder *)
  Inductive call :=
  | CDc (x : F) | CAgcBw (x : F) | CGain (lo hi : F) | CTimingBw (u l : F) | CMaxDev (x : F)
  | CSquelchPower (o c : F) | CSquelchBw (x : F) | CPre (x : N) | CPfx (x : N) | CInv (x : N)
  | CNoEq | CEq (order : option (nat * nat)) (relax : option F) (regul : option F).

  Definition opt_apply {A B} (o : option B) (f : A -> B -> outcome A) (a : A) : outcome A :=
    match o with Some v => f a v | None => Done a end.

  Definition apply_call (b : builder) (c : call) : outcome builder :=
    match c with
    | CDc x => set_dc b x | CAgcBw x => set_agc_bw b x | CGain lo hi => set_gain_limits b lo hi
    | CTimingBw u l => set_timing_bw b u l | CMaxDev x => set_maxdev b x
    | CSquelchPower o c => set_squelch_power b o c | CSquelchBw x => set_squelch_bw b x
    | CPre x => set_pre b x | CPfx x => set_pfx b x | CInv x => set_inv b x
    | CNoEq => set_eq b None
    | CEq order relax regul =>
      obind (opt_apply order (fun e nn => eq_set_order e (fst nn) (snd nn)) eq_default) (fun e1 =>
      obind (opt_apply relax eq_set_relax e1) (fun e2 =>
      obind (opt_apply regul eq_set_regul e2) (fun e3 => set_eq b (Some e3))))
    end.

  Fixpoint apply_calls (b : builder) (cs : list call) : outcome builder :=
    match cs with
    | [] => Done b
    | c :: r => obind (apply_call b c) (fun b' => apply_calls b' r)
    end.

  (** * Construction.  [ntaps] = floor(rate / 520.83) as usize, [dcraw] = (dc_len * sps) as usize. *)
  Definition window_new (site : N) (len : nat) : outcome nat :=          (* assert!(len > 0) *)
    if (0 <? len)%nat then Done len else Panic site.
  Definition from_identity (site : N) (len : nat) : outcome nat :=       (* out.0[len - 1] *)
    if (0 <? len)%nat then Done len else Panic site.

  Record lengths := mkLengths { l_dc : nat; l_demod : nat; l_ff : nat; l_fb : nat }.

  Definition disabled_equalizer : outcome eqcfg :=
    obind (eq_set_order eq_default 1 1) (fun e => eq_set_relax e f0).

  Definition build (b : builder) (ntaps dcraw : nat) (agc_bw_scaled : F) : outcome lengths :=
    obind (window_new 40 (Nat.max 1 dcraw)) (fun ldc =>            (* MovingAverage::new x2 *)
    obind (fclamp 41 agc_bw_scaled f0 f1) (fun _ =>                 (* Agc::new *)
    obind (window_new 42 ntaps) (fun ldm =>                          (* FskDemod window *)
    obind (fclamp 43 (b_maxdev b) f0 fhalf) (fun _ =>               (* TimingLoop::new *)
    obind (fclamp 44 (b_sqbw b) f0 f1) (fun _ =>                    (* PowerTracker::new *)
    obind (match b_eq b with Some e => Done e | None => disabled_equalizer end) (fun e =>
    obind (from_identity 45 (e_nff e)) (fun _ =>
    obind (from_identity 46 (e_nfb e)) (fun _ =>
    obind (window_new 47 (e_nff e)) (fun lff =>
    obind (window_new 48 (e_nfb e)) (fun lfb =>
    Done (mkLengths ldc ldm lff lfb))))))))))).

  (** * Data-dependent clamps executed per sample *)
  Definition agc_input_clamp (b : builder) (gain : F) : outcome F := fclamp 50 gain (b_gmin b) (b_gmax b).
  Definition timing_clamp (period_avg period_min period_max : F) : outcome F :=
    fclamp 51 period_avg period_min period_max.
End Config.
