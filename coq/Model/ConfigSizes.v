(** The two places where a float decides an INTEGER that a constructor asserts on, evaluated in
    IEEE-754 binary32 with Flocq (round to nearest even, as rustc/LLVM do for [as f32], [/], [*]):
      ntaps  = floor(rate as f32 / 520.83f32) as usize      (waveform::matched_filter)
      dcraw  = (dc_len * (rate as f32 / 520.83f32)) as usize (From<&SameReceiverBuilder>)
    [as usize] truncates toward zero, saturates, and maps NaN to 0. *)
From Coq Require Import ZArith NArith Bool List.
From Flocq Require Import Core BinarySingleNaN.
Open Scope Z_scope.

Definition prec : Z := 24.
Definition emax : Z := 128.
#[global] Instance Hprec : FLX.Prec_gt_0 prec := eq_refl.
#[global] Instance Hmax : Prec_lt_emax prec emax := eq_refl.
Definition f32 := binary_float prec emax.

Definition of_me (m e : Z) : f32 := binary_normalize prec emax Hprec Hmax mode_NE m e false.
Definition of_Z (z : Z) : f32 := of_me z 0.

(** 520.83f32 = 0x4402351f = 8533279 * 2^-14 *)
Definition BAUD_HZ : f32 := of_me 8533279 (-14).

(** decode an IEEE-754 single from its 32 bits *)
Definition of_bits (w : Z) : f32 :=
  let s := Z.testbit w 31 in
  let ex := Z.land (Z.shiftr w 23) 255 in
  let mt := Z.land w 8388607 in
  if ex =? 255 then (if mt =? 0 then B754_infinity s else B754_nan)
  else
    let v := if ex =? 0 then of_me mt (-149) else of_me (mt + 8388608) (ex - 150) in
    if s then Bopp v else v.

Definition samples_per_symbol (rate : Z) : f32 := Bdiv mode_NE (of_Z rate) BAUD_HZ.

Definition USIZE_MAX : Z := 18446744073709551615.

(** [x as usize] *)
Definition as_usize (x : f32) : Z :=
  match x with
  | B754_zero _ => 0
  | B754_nan => 0
  | B754_infinity s => if s then 0 else USIZE_MAX
  | B754_finite s m e _ =>
    if s then 0
    else let v := if 0 <=? e then Z.pos m * 2 ^ e else Z.pos m / 2 ^ (- e) in Z.min v USIZE_MAX
  end.

Definition ntaps (rate : Z) : Z := as_usize (samples_per_symbol rate).   (* floor of a positive value = truncation *)
Definition dcraw (dc_bits rate : Z) : Z := as_usize (Bmult mode_NE (of_bits dc_bits) (samples_per_symbol rate)).
Definition dc_window (dc_bits rate : Z) : Z := Z.max 1 (dcraw dc_bits rate).

(** a finite range check that [vm_compute] can run and a lemma can lift *)
Definition forall_range (p : Z -> bool) (lo : Z) (n : N) : bool :=
  N.recursion true (fun k acc => acc && p (lo + Z.of_N k)) n.
