(** Model of eventcodes.rs, message/eventcode.rs, significance.rs, phenomenon.rs and
    originator.rs over the tables regenerated from the built crate (Gen/Generated.v). *)
From Sameold Require Import Base.Bytes Model.Header.
From Sameold Require Gen.Generated.

Inductive sig := Test | Statement | Emergency | Watch | Warning | Unknown.

Definition sig_eqb (a b : sig) : bool :=
  match a, b with
  | Test, Test | Statement, Statement | Emergency, Emergency
  | Watch, Watch | Warning, Warning | Unknown, Unknown => true
  | _, _ => false
  end.

(** [SignificanceLevel as u8] (declaration order of the #[repr(u8)] enum) *)
Definition sig_as_u8 (s : sig) : N :=
  match s with Test => 0 | Statement => 1 | Emergency => 2 | Watch => 3 | Warning => 4 | Unknown => 5 end.

(** [SignificanceLevel::from(&str)] *)
Definition sig_from (code : bytes) : sig :=
  match code with
  | [84] => Test | [83] => Statement | [69] => Emergency | [65] => Watch | [87] => Warning
  | _ => Unknown
  end.

Definition sig_code_str (s : sig) : bytes :=
  match s with Test => [84] | Statement => [83] | Emergency => [69] | Watch => [65] | Warning => [87] | Unknown => [] end.

(** Debug names, used to read the generated tables *)
Definition sig_name (s : sig) : bytes :=
  match s with
  | Test => [84;101;115;116]
  | Statement => [83;116;97;116;101;109;101;110;116]
  | Emergency => [69;109;101;114;103;101;110;99;121]
  | Watch => [87;97;116;99;104]
  | Warning => [87;97;114;110;105;110;103]
  | Unknown => [85;110;107;110;111;119;110]
  end.
Definition all_sigs : list sig := [Test; Statement; Emergency; Watch; Warning; Unknown].

Definition sig_of_name (n : bytes) : option sig := find (fun s => list_eqb (sig_name s) n) all_sigs.

(** row of the generated SIGNIFICANCE table for a level *)
Definition sig_row (s : sig) : option (list bytes) :=
  find (fun r => match r with n :: _ => list_eqb n (sig_name s) | [] => false end) Generated.SIGNIFICANCE.
Definition sig_display_str (s : sig) : bytes :=
  match sig_row s with Some (_ :: _ :: d :: _) => d | _ => [] end.

(** a phenomenon is identified by its variant (Debug) name *)
Definition phenomenon := bytes.
Definition UNRECOGNIZED : phenomenon := [85;110;114;101;99;111;103;110;105;122;101;100].

Definition phen_row (p : phenomenon) : option (list bytes) :=
  find (fun r => match r with n :: _ => list_eqb n p | [] => false end) Generated.PHENOMENA.
Definition phen_brief (p : phenomenon) : bytes :=
  match phen_row p with Some (_ :: b :: _) => b | _ => [] end.
Definition phen_pattern (p : phenomenon) : bytes :=
  match phen_row p with Some (_ :: _ :: pat :: _) => pat | _ => [] end.
Definition phen_flag (k : nat) (p : phenomenon) : bool :=
  match phen_row p with Some (_ :: _ :: _ :: f :: _) => match nth_error f k with Some 1 => true | _ => false end | _ => false end.
Definition phen_is_national := phen_flag 0.
Definition phen_is_test := phen_flag 1.
Definition phen_is_weather := phen_flag 2.

Fixpoint lookup (k : bytes) (tbl : list (list bytes)) : option (list bytes) :=
  match tbl with
  | [] => None
  | (k' :: v) :: tbl' => if list_eqb k k' then Some v else lookup k tbl'
  | [] :: tbl' => lookup k tbl'
  end.

(** [str::get(a..b)] needs char boundaries; for a 3-byte string only index 2 can fail *)
Definition boundary2 (code : bytes) : bool :=
  match nth_error code 2 with Some b => negb (is_cont b) | None => true end.

Definition lookup_three (code : bytes) : option (phenomenon * sig) :=
  match lookup code Generated.CODEBOOK3 with
  | Some [p; s] => match sig_of_name s with Some sg => Some (p, sg) | None => None end
  | _ => None
  end.

Definition lookup_two (code : bytes) : option (phenomenon * sig) :=
  if boundary2 code then
    match lookup (firstn 2 code) Generated.CODEBOOK2 with
    | Some [p] => Some (p, sig_from (skipn 2 code))
    | _ => None
    end
  else None.

Definition lookup_one (code : bytes) : option (phenomenon * sig) :=
  if boundary2 code then Some (UNRECOGNIZED, sig_from (skipn 2 code)) else None.

(** [parse_event]; the argument is a valid UTF-8 string *)
Definition parse_event (code : bytes) : option (phenomenon * sig) :=
  if negb (length code =? 3)%nat then None
  else match lookup_three code with
       | Some r => Some r
       | None => match lookup_two code with
                 | Some r => Some r
                 | None => lookup_one code
                 end
       end.

(** [EventCode::from] *)
Definition event_from (code : bytes) : phenomenon * sig :=
  match parse_event code with Some r => r | None => (UNRECOGNIZED, Unknown) end.

Definition PERCENT : N := 37.

(** [Display for EventCode] (non-alternate form) *)
Definition event_display (e : phenomenon * sig) : bytes :=
  let pat := phen_pattern (fst e) in
  match rev pat with
  | c :: r => if c =? PERCENT then rev r ++ sig_display_str (snd e) else pat
  | [] => pat
  end.

Definition event_is_test (e : phenomenon * sig) : bool := sig_eqb (snd e) Test || phen_is_test (fst e).
Definition event_is_unrecognized (e : phenomenon * sig) : bool :=
  list_eqb (fst e) UNRECOGNIZED || sig_eqb (snd e) Unknown.

(** * Originator *)
Definition originator := bytes.   (* variant name *)
Definition ORIG_UNKNOWN : originator := [85;110;107;110;111;119;110].
Definition ORIG_NWS : originator :=
  [78;97;116;105;111;110;97;108;87;101;97;116;104;101;114;83;101;114;118;105;99;101].
Definition ORIG_EC : originator :=
  [69;110;118;105;114;111;110;109;101;110;116;67;97;110;97;100;97].
Definition EC_PREFIX : bytes := [69; 67; 47].   (* "EC/" *)

Definition originator_parse (org : bytes) : originator :=
  match lookup org Generated.ORIGINATOR_PARSE with Some [o] => o | _ => ORIG_UNKNOWN end.

Definition originator_from_org_and_call (org call : bytes) : originator :=
  let d := originator_parse org in
  if list_eqb d ORIG_NWS && starts_with EC_PREFIX call then ORIG_EC else d.

(** [MessageHeader::is_national] *)
Definition is_national (h : header) : outcome bool :=
  obind (location_str h) (fun l =>
  obind (event_str h) (fun e =>
  Done (list_eqb l LOCATION_NATIONAL && phen_is_national (fst (event_from e))))).
