(** Model of the discrete part of crates/sameold/src/receiver.rs: everything that
    happens from the per-symbol "tick" downwards, the event queue, the sample
    counter, the forced end-of-message timer and the iterator protocol. *)
From Sameold Require Import Base.Bytes Model.Header Model.Combiner Model.Framer Model.Squelch Model.Assembler.
From Sameold Require Gen.Generated.

Definition MAX_MESSAGE_DURATION_SECS : N := Generated.MAX_MESSAGE_DURATION_SECS.

(** what the floating-point chain delivers for one symbol *)
Record tick := mkTick {
  t_bit : bool;       (* hard decision seen by the code correlator *)
  t_popen : bool;     (* smoothed power >= open threshold *)
  t_pclose : bool;    (* smoothed power >= close threshold *)
  t_eq : N            (* equalizer byte estimate, meaningful when the squelch is Ready *)
}.

(** one input sample: the timing loop either delivers a symbol on it or not *)
Inductive item := NoTick | Tick (t : tick).

Inductive what := WLink (l : link) | WTransport (t : transport).
Record event := mkEvent { ev_what : what; ev_time : N }.

Record rcfg := mkRcfg { preamble_max_errors : N; fc : fcfg; input_rate : N }.

Record rx := mkRx {
  r_sq : sq;
  r_fr : fstate;
  r_asm : asm;
  r_link : link;
  r_transport : transport;
  r_queue : list event;        (* front first *)
  r_samples : N;               (* input_sample_counter *)
  r_force_eom : option N       (* force_eom_at_sample *)
}.

Definition rx_init : rx := mkRx sq_init FIdle asm_init LNoCarrier TIdle [] 0 None.

(** [process_linklayer_symbol]: returns (link state, squelch, framer, used the equalizer byte) *)
Definition linklayer_symbol (c : rcfg) (s : sq) (f : fstate) (t : tick)
  : link * sq * fstate * bool :=
  let '(o, s1) := sq_input (preamble_max_errors c) s (t_bit t) (t_popen t) (t_pclose t) in
  match o with
  | SqNoCarrier => let '(l, f') := framer_end f in (l, s1, f', false)
  | SqDropped => let '(l, f') := framer_end f in (l, sq_end s1, f', false)
  | SqPanic => let '(l, f') := framer_end f in (l, s1, f', false)
  | SqReading => (framer_state f, s1, f, false)
  | SqReady resync _ =>
    let '(l, f') := framer_input (fc c) f (t_eq t) resync in
    let s2 :=
      match l with
      | LReading => sq_set_lock s1 true
      | LNoCarrier | LBurst _ => sq_end s1
      | LSearching => s1
      end in
    (l, s2, f', true)
  end.

(** [process_transportlayer] *)
Definition transportlayer (c : rcfg) (a : asm) (l : link) (symcount samples : N) (force : option N)
  : option transport * asm * option N :=
  let r :=
    match l with
    | LBurst b => let '(t, a') := asm_assemble a b symcount in (Some t, a')
    | _ =>
      let timed_out := match force with Some tm => tm <? samples | None => false end in
      if timed_out then (Some (TMessage (Ok EOM)), a)
      else match l with
           | LNoCarrier => let '(t, a') := asm_idle a symcount in (Some t, a')
           | _ => (None, a)
           end
    end in
  let '(ot, a') := r in
  let force' :=
    match ot with
    | Some (TMessage (Ok (SOM _))) => Some (samples + MAX_MESSAGE_DURATION_SECS * input_rate c)
    | Some (TMessage (Ok EOM)) => None
    | _ => force
    end in
  (ot, a', force').

(** one input sample through [process]'s loop body (without the early return) *)
Definition step_item (c : rcfg) (s : rx) (i : item) : rx :=
  let n := r_samples s + 1 in
  match i with
  | NoTick => mkRx (r_sq s) (r_fr s) (r_asm s) (r_link s) (r_transport s) (r_queue s) n (r_force_eom s)
  | Tick t =>
    let '(l, sq', fr', _) := linklayer_symbol c (r_sq s) (r_fr s) t in
    let link_changed := negb (link_eqb l (r_link s)) in
    let q1 := if link_changed then r_queue s ++ [mkEvent (WLink l) n] else r_queue s in
    let link' := if link_changed then l else r_link s in
    let '(ot, asm', force') := transportlayer c (r_asm s) l (sq_symcount sq') n (r_force_eom s) in
    match ot with
    | Some t' =>
      if transport_eqb t' (r_transport s)
      then mkRx sq' fr' asm' link' (r_transport s) q1 n force'
      else mkRx sq' fr' asm' link' t' (q1 ++ [mkEvent (WTransport t') n]) n force'
    | None => mkRx sq' fr' asm' link' (r_transport s) q1 n force'
    end
  end.

(** did the model consume the equalizer byte of this tick? (trace consistency) *)
Definition uses_eq (c : rcfg) (s : rx) (t : tick) : bool :=
  snd (linklayer_symbol c (r_sq s) (r_fr s) t).

Definition pop_event (s : rx) : option (event * rx) :=
  match r_queue s with
  | [] => None
  | e :: q => Some (e, mkRx (r_sq s) (r_fr s) (r_asm s) (r_link s) (r_transport s) q
                             (r_samples s) (r_force_eom s))
  end.

(** [SameReceiver::process] = one call of [Iterator::next]: returns the event (if any),
    the new state and the unconsumed rest of the source *)
Fixpoint process_loop (c : rcfg) (s : rx) (src : list item) : option event * rx * list item :=
  match src with
  | [] => (None, s, [])
  | i :: rest =>
    let s' := step_item c s i in
    match i with
    | NoTick => process_loop c s' rest
    | Tick _ =>
      match pop_event s' with
      | Some (e, s'') => (Some e, s'', rest)
      | None => process_loop c s' rest
      end
    end
  end.

Definition process (c : rcfg) (s : rx) (src : list item) : option event * rx * list item :=
  match pop_event s with
  | Some (e, s') => (Some e, s', src)
  | None => process_loop c s src
  end.

(** reference semantics: run everything, collect every event in order *)
Fixpoint run_all (c : rcfg) (s : rx) (src : list item) : list event * rx :=
  match src with
  | [] => (r_queue s, mkRx (r_sq s) (r_fr s) (r_asm s) (r_link s) (r_transport s) [] (r_samples s) (r_force_eom s))
  | i :: rest =>
    let s' := step_item c s i in
    let q := r_queue s' in
    let s'' := mkRx (r_sq s') (r_fr s') (r_asm s') (r_link s') (r_transport s') [] (r_samples s') (r_force_eom s') in
    let '(evs, sf) := run_all c s'' rest in
    (q ++ evs, sf)
  end.

(** [n] samples without a tick *)
Definition skip (s : rx) (n : N) : rx :=
  mkRx (r_sq s) (r_fr s) (r_asm s) (r_link s) (r_transport s) (r_queue s) (r_samples s + n) (r_force_eom s).

Definition rx_reset (s : rx) : rx := rx_init.
