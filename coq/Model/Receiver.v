(** Model of the discrete part of crates/sameold/src/receiver.rs: everything that
    happens from the per-symbol "tick" downwards, the event queue, the sample
    counter, the forced end-of-message timer and the iterator protocol. *)
From Sameold Require Import Base.Bytes Model.Header Model.Combiner Model.Framer Model.Squelch Model.Assembler.
From Sameold Require Gen.Generated.

Definition MAX_MESSAGE_DURATION_SECS : N := Generated.MAX_MESSAGE_DURATION_SECS.

(** what the floating-point chain delivers for one symbol *)
Record tick := mkTick {
  t_bit : bool;       (* hard decision seen by the code correlator *)
  t_popen : bool;     (* smoothed power >= open threshold *)
  t_pclose : bool;    (* smoothed power >= close threshold *)
  t_eq : N            (* equalizer byte estimate, meaningful when the squelch is Ready *)
}.

(** one input sample: the timing loop either delivers a symbol on it or not *)
Inductive item := NoTick | Tick (t : tick).

Inductive what := WLink (l : link) | WTransport (t : transport).
Record event := mkEvent { ev_what : what; ev_time : N }.

Record rcfg := mkRcfg { preamble_max_errors : N; fc : fcfg; input_rate : N }.

(** everything except the event queue *)
Record core := mkCore {
  r_sq : sq;
  r_fr : fstate;
  r_asm : asm;
  r_link : link;
  r_transport : transport;
  r_samples : N;               (* input_sample_counter *)
  r_force_eom : option N       (* force_eom_at_sample *)
}.

Record rx := mkRx {
  r_core : core;
  r_queue : list event         (* front first *)
}.

Definition core_init : core := mkCore sq_init FIdle asm_init LNoCarrier TIdle 0 None.
Definition rx_init : rx := mkRx core_init [].

(** [process_linklayer_symbol]: returns (link state, squelch, framer, used the equalizer byte) *)
Definition linklayer_symbol (c : rcfg) (s : sq) (f : fstate) (t : tick)
  : link * sq * fstate * bool :=
  let '(o, s1) := sq_input (preamble_max_errors c) s (t_bit t) (t_popen t) (t_pclose t) in
  match o with
  | SqNoCarrier => let '(l, f') := framer_end f in (l, s1, f', false)
  | SqDropped => let '(l, f') := framer_end f in (l, sq_end s1, f', false)
  | SqPanic => let '(l, f') := framer_end f in (l, s1, f', false)
  | SqReading => (framer_state f, s1, f, false)
  | SqReady resync _ =>
    let '(l, f') := framer_input (fc c) f (t_eq t) resync in
    let s2 :=
      match l with
      | LReading => sq_set_lock s1 true
      | LNoCarrier | LBurst _ => sq_end s1
      | LSearching => s1
      end in
    (l, s2, f', true)
  end.

(** [process_transportlayer] *)
Definition transportlayer (c : rcfg) (a : asm) (l : link) (symcount samples : N) (force : option N)
  : option transport * asm * option N :=
  let r :=
    match l with
    | LBurst b => let '(t, a') := asm_assemble a b symcount in (Some t, a')
    | _ =>
      let timed_out := match force with Some tm => tm <? samples | None => false end in
      if timed_out then (Some (TMessage (Ok EOM)), a)
      else match l with
           | LNoCarrier => let '(t, a') := asm_idle a symcount in (Some t, a')
           | _ => (None, a)
           end
    end in
  let '(ot, a') := r in
  let force' :=
    match ot with
    | Some (TMessage (Ok (SOM _))) => Some (samples + MAX_MESSAGE_DURATION_SECS * input_rate c)
    | Some (TMessage (Ok EOM)) => None
    | _ => force
    end in
  (ot, a', force').

(** one input sample through the body of [process]'s loop: new state and the events it queues *)
Definition step_core (c : rcfg) (k : core) (i : item) : core * list event :=
  let n := r_samples k + 1 in
  match i with
  | NoTick => (mkCore (r_sq k) (r_fr k) (r_asm k) (r_link k) (r_transport k) n (r_force_eom k), [])
  | Tick t =>
    let '(l, sq', fr', _) := linklayer_symbol c (r_sq k) (r_fr k) t in
    let link_changed := negb (link_eqb l (r_link k)) in
    let e1 := if link_changed then [mkEvent (WLink l) n] else [] in
    let link' := if link_changed then l else r_link k in
    let '(ot, asm', force') := transportlayer c (r_asm k) l (sq_symcount sq') n (r_force_eom k) in
    match ot with
    | Some t' =>
      if transport_eqb t' (r_transport k)
      then (mkCore sq' fr' asm' link' (r_transport k) n force', e1)
      else (mkCore sq' fr' asm' link' t' n force', e1 ++ [mkEvent (WTransport t') n])
    | None => (mkCore sq' fr' asm' link' (r_transport k) n force', e1)
    end
  end.

Definition step_item (c : rcfg) (s : rx) (i : item) : rx :=
  let '(k', evs) := step_core c (r_core s) i in mkRx k' (r_queue s ++ evs).

(** did the model consume the equalizer byte of this tick? (trace consistency) *)
Definition uses_eq (c : rcfg) (s : rx) (t : tick) : bool :=
  snd (linklayer_symbol c (r_sq (r_core s)) (r_fr (r_core s)) t).

Definition pop_event (s : rx) : option (event * rx) :=
  match r_queue s with
  | [] => None
  | e :: q => Some (e, mkRx (r_core s) q)
  end.

(** [SameReceiver::process] = one call of [Iterator::next]: returns the event (if any),
    the new state and the unconsumed rest of the source *)
Fixpoint process_loop (c : rcfg) (s : rx) (src : list item) : option event * rx * list item :=
  match src with
  | [] => (None, s, [])
  | i :: rest =>
    let s' := step_item c s i in
    match i with
    | NoTick => process_loop c s' rest
    | Tick _ =>
      match pop_event s' with
      | Some (e, s'') => (Some e, s'', rest)
      | None => process_loop c s' rest
      end
    end
  end.

Definition process (c : rcfg) (s : rx) (src : list item) : option event * rx * list item :=
  match pop_event s with
  | Some (e, s') => (Some e, s', src)
  | None => process_loop c s src
  end.

(** reference semantics: every event of a single pass, in order *)
Fixpoint run_core (c : rcfg) (k : core) (src : list item) : list event * core :=
  match src with
  | [] => ([], k)
  | i :: rest =>
    let '(k', evs) := step_core c k i in
    let '(evs', kf) := run_core c k' rest in
    (evs ++ evs', kf)
  end.

(** [n] samples without a tick *)
Definition skip_core (k : core) (n : N) : core :=
  mkCore (r_sq k) (r_fr k) (r_asm k) (r_link k) (r_transport k) (r_samples k + n) (r_force_eom k).
Definition skip (s : rx) (n : N) : rx := mkRx (skip_core (r_core s) n) (r_queue s).

Definition rx_reset (s : rx) : rx := rx_init.

(** * [iter_messages] and [flush] *)
Definition msg_of (e : event) : option message :=
  match ev_what e with WTransport (TMessage (Ok m)) => Some m | _ => None end.

(** [iter_messages(src).next()] *)
Fixpoint next_message (fuel : nat) (c : rcfg) (s : rx) (src : list item) : option message * rx * list item :=
  match fuel with
  | O => (None, s, src)
  | S f =>
    match process c s src with
    | (Some e, s', rest) =>
      match msg_of e with
      | Some m => (Some m, s', rest)
      | None => next_message f c s' rest
      end
    | (None, s', rest) => (None, s', rest)
    end
  end.

(** [flush()]: bind [iter_messages] to the zero padding (given here as the items the DSP makes
    of it), take one message, drop the iterator *)
Definition flush (fuel : nat) (c : rcfg) (s : rx) (zeros : list item) : option message * rx :=
  let '(m, s', _) := next_message fuel c s zeros in (m, s').

