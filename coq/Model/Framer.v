(** Model of crates/sameold/src/receiver/framing.rs.  No proofs here. *)
From Sameold Require Import Base.Bytes Model.Header Model.Combiner.
From Sameold Require Gen.Generated.

Inductive link := LNoCarrier | LSearching | LReading | LBurst (b : bytes).

(** the message being read is kept newest-first ([racc]); the burst is [rev racc] *)
Inductive fstate :=
| FIdle
| FPrefixSearch (word : N) (count : N)
| FDataRead (racc : bytes) (invalid : N).

Record fcfg := mkFcfg { max_prefix_bit_errors : N; max_invalid_bytes : N }.

Definition PREFIX_SEARCH_LEN : N := Generated.PREFIX_SEARCH_LEN.
Definition MAX_BURST_LENGTH : nat := N.to_nat Generated.MAX_BURST_LENGTH.
Definition PREFIX_BYTES_START : N := 1514362435.   (* "ZCZC" big-endian 0x5A435A43 *)
Definition PREFIX_BYTES_END : N := 1313754702.     (* "NNNN" big-endian 0x4E4E4E4E *)
Definition U32_MOD : N := 4294967296.

Definition message_prefix_errors (w : N) : N :=
  N.min (popcount (N.lxor w PREFIX_BYTES_START)) (popcount (N.lxor w PREFIX_BYTES_END)).

(** [u32::to_be_bytes] *)
Definition be_bytes (w : N) : bytes :=
  [N.shiftr w 24 mod 256; N.shiftr w 16 mod 256; N.shiftr w 8 mod 256; w mod 256].

Definition framer_state (s : fstate) : link :=
  match s with FIdle => LNoCarrier | FPrefixSearch _ _ => LSearching | FDataRead _ _ => LReading end.

Definition framer_end (s : fstate) : link * fstate :=
  match s with
  | FDataRead racc _ => (LBurst (rev racc), FIdle)
  | _ => (LNoCarrier, FIdle)
  end.

(** [input(data, _, false)] *)
Definition framer_step (c : fcfg) (s : fstate) (data : N) : link * fstate :=
  match s with
  | FIdle => (LNoCarrier, FIdle)
  | FPrefixSearch w cnt =>
    let w' := (N.lor (N.shiftl w 8) data) mod U32_MOD in
    let cnt' := cnt + 1 in
    let s' :=
      if message_prefix_errors w' <=? max_prefix_bit_errors c then FDataRead (rev (be_bytes w')) 0
      else if PREFIX_SEARCH_LEN <? cnt' then FIdle
      else FPrefixSearch w' cnt' in
    (framer_state s', s')
  | FDataRead racc inv =>
    let inv' := inv + b2n (negb (is_allowed_byte data)) in
    if max_invalid_bytes c <? inv' then framer_end s
    else
      let racc' := data :: racc in
      if (MAX_BURST_LENGTH <=? length racc')%nat then framer_end (FDataRead racc' inv')
      else (LReading, FDataRead racc' inv')
  end.

(** [input(data, _, restart)] *)
Definition framer_input (c : fcfg) (s : fstate) (data : N) (restart : bool) : link * fstate :=
  if restart then
    let out := fst (framer_end s) in
    let s2 := snd (framer_step c (FPrefixSearch 0 0) data) in
    (match out with LBurst _ => out | _ => LSearching end, s2)
  else framer_step c s data.

Definition link_eqb (a b : link) : bool :=
  match a, b with
  | LNoCarrier, LNoCarrier | LSearching, LSearching | LReading, LReading => true
  | LBurst x, LBurst y => list_eqb x y
  | _, _ => false
  end.
