(** Model of crates/sameold/src/receiver/framing.rs.  No proofs here.
    The 32-bit search word is kept as its four bytes (oldest first): shifting a byte in
    drops the oldest, and the bit distance of the word is the sum of the byte distances.
    [message_prefix_errors_u32] restates the u32 formulation for the correspondence check. *)
From Sameold Require Import Base.Bytes Model.Header Model.Combiner.
From Sameold Require Gen.Generated.

Inductive link := LNoCarrier | LSearching | LReading | LBurst (b : bytes).

Inductive fstate :=
| FIdle
| FPrefixSearch (word : bytes) (count : N)      (* last four bytes, oldest first *)
| FDataRead (msg : bytes) (invalid : N).

Record fcfg := mkFcfg { max_prefix_bit_errors : N; max_invalid_bytes : N }.

Definition PREFIX_SEARCH_LEN : N := Generated.PREFIX_SEARCH_LEN.
Definition MAX_BURST_LENGTH : nat := N.to_nat Generated.MAX_BURST_LENGTH.
Definition PREFIX_START : bytes := [90; 67; 90; 67].   (* "ZCZC" *)
Definition PREFIX_END : bytes := [78; 78; 78; 78].     (* "NNNN" *)
Definition ZERO_WORD : bytes := [0; 0; 0; 0].

Fixpoint bit_distance (a b : bytes) : N :=
  match a, b with
  | x :: a', y :: b' => popcount (N.lxor x y) + bit_distance a' b'
  | _, _ => 0
  end.

Definition prefix_errors (w : bytes) : N :=
  N.min (bit_distance w PREFIX_START) (bit_distance w PREFIX_END).

(** [u32::to_be_bytes] and the u32 formulation of [message_prefix_errors] *)
Definition be_bytes (w : N) : bytes :=
  [N.shiftr w 24 mod 256; N.shiftr w 16 mod 256; N.shiftr w 8 mod 256; w mod 256].
Definition message_prefix_errors_u32 (w : N) : N := prefix_errors (be_bytes w).

Definition framer_state (s : fstate) : link :=
  match s with FIdle => LNoCarrier | FPrefixSearch _ _ => LSearching | FDataRead _ _ => LReading end.

Definition framer_end (s : fstate) : link * fstate :=
  match s with
  | FDataRead msg _ => (LBurst msg, FIdle)
  | _ => (LNoCarrier, FIdle)
  end.

(** [input(data, _, false)] *)
Definition framer_step (c : fcfg) (s : fstate) (data : N) : link * fstate :=
  match s with
  | FIdle => (LNoCarrier, FIdle)
  | FPrefixSearch w cnt =>
    let w' := tl w ++ [data] in
    let cnt' := cnt + 1 in
    let s' :=
      if prefix_errors w' <=? max_prefix_bit_errors c then FDataRead w' 0
      else if PREFIX_SEARCH_LEN <? cnt' then FIdle
      else FPrefixSearch w' cnt' in
    (framer_state s', s')
  | FDataRead msg inv =>
    let inv' := inv + b2n (negb (is_allowed_byte data)) in
    if max_invalid_bytes c <? inv' then framer_end s
    else
      let msg' := msg ++ [data] in
      if (MAX_BURST_LENGTH <=? length msg')%nat then framer_end (FDataRead msg' inv')
      else (LReading, FDataRead msg' inv')
  end.

(** [input(data, _, restart)] *)
Definition framer_input (c : fcfg) (s : fstate) (data : N) (restart : bool) : link * fstate :=
  if restart then
    let out := fst (framer_end s) in
    let s2 := snd (framer_step c (FPrefixSearch ZERO_WORD 0) data) in
    (match out with LBurst _ => out | _ => LSearching end, s2)
  else framer_step c s data.

Definition link_eqb (a b : link) : bool :=
  match a, b with
  | LNoCarrier, LNoCarrier | LSearching, LSearching | LReading, LReading => true
  | LBurst x, LBurst y => list_eqb x y
  | _, _ => false
  end.

(** a run of [input(_, _, false)] calls *)
Fixpoint framer_steps (c : fcfg) (s : fstate) (ds : bytes) : list link * fstate :=
  match ds with
  | [] => ([], s)
  | d :: r =>
    let '(l, s') := framer_step c s d in
    let '(ls, s'') := framer_steps c s' r in
    (l :: ls, s'')
  end.
