(* GENERATED from the built crate (/repo working tree) by lib/gen.py via
   harness/src/bin/dump.rs on every check.  Do not edit. *)
From Coq Require Import NArith List.
Import ListNotations.
Open Scope N_scope.

Definition MAX_MESSAGE_LENGTH : N := 268.
Definition MAX_INTERBURST_SYMBOLS : N := 682.
Definition MAX_HISTORY_DURATION : N := 5652.
Definition PREFIX_SEARCH_LEN : N := 21.
Definition MAX_MESSAGE_DURATION_SECS : N := 135.
Definition PREAMBLE_SYNC_WORD : N := 2880154539.
Definition PREAMBLE : N := 171.
Definition SQUELCH_OUTPUT_LENGTH : N := 16.
