(** The published SAME event codes, transcribed BY HAND from the crate documentation
    (crates/sameold/src/eventcodes.rs module docs, 61 codes) and NWSI 10-1712:
    code |-> phenomenon (variant name) and significance.  This file is the specification
    side of C16: it is not generated. *)
From Coq Require Import String List.
Import ListNotations.
From Sameold Require Import Base.Bytes Model.Events.
Open Scope string_scope.

Definition s2b (s : string) : bytes :=
  map (fun c => Ascii.N_of_ascii c) (list_ascii_of_string s).

Definition published : list (string * string * sig) := [
  ("ADR", "AdministrativeMessage", Statement);
  ("AVA", "Avalanche", Watch);
  ("AVW", "Avalanche", Warning);
  ("BLU", "BlueAlert", Warning);
  ("BZW", "Blizzard", Warning);
  ("CAE", "ChildAbduction", Emergency);
  ("CDW", "CivilDanger", Warning);
  ("CEM", "CivilEmergency", Warning);
  ("CFA", "CoastalFlood", Watch);
  ("CFW", "CoastalFlood", Warning);
  ("DMO", "PracticeDemoWarning", Warning);
  ("DSW", "DustStorm", Warning);
  ("EAN", "NationalEmergency", Warning);
  ("EQW", "Earthquake", Warning);
  ("EVI", "Evacuation", Warning);
  ("EWW", "ExtremeWind", Warning);
  ("FFA", "FlashFlood", Watch);
  ("FFS", "FlashFlood", Statement);
  ("FFW", "FlashFlood", Warning);
  ("FLA", "Flood", Watch);
  ("FLS", "Flood", Statement);
  ("FLW", "Flood", Warning);
  ("FRW", "Fire", Warning);
  ("FSW", "FlashFreeze", Warning);
  ("FZW", "Freeze", Warning);
  ("HLS", "HurricaneLocalStatement", Statement);
  ("HMW", "HazardousMaterials", Warning);
  ("HUA", "Hurricane", Watch);
  ("HUW", "Hurricane", Warning);
  ("HWA", "HighWind", Watch);
  ("HWW", "HighWind", Warning);
  ("LAE", "LocalAreaEmergency", Emergency);
  ("LEW", "LawEnforcementWarning", Warning);
  ("NAT", "NationalAudibleTest", Test);
  ("NIC", "NationalInformationCenter", Statement);
  ("NMN", "NetworkMessageNotification", Statement);
  ("NPT", "NationalPeriodicTest", Test);
  ("NST", "NationalSilentTest", Test);
  ("NUW", "NuclearPowerPlant", Warning);
  ("RHW", "RadiologicalHazard", Warning);
  ("RMT", "RequiredMonthlyTest", Test);
  ("RWT", "RequiredWeeklyTest", Test);
  ("SMW", "SpecialMarine", Warning);
  ("SPS", "SpecialWeatherStatement", Statement);
  ("SPW", "ShelterInPlace", Warning);
  ("SQW", "SnowSquall", Warning);
  ("SSA", "StormSurge", Watch);
  ("SSW", "StormSurge", Warning);
  ("SVA", "SevereThunderstorm", Watch);
  ("SVR", "SevereThunderstorm", Warning);
  ("SVS", "SevereWeather", Statement);
  ("TOA", "Tornado", Watch);
  ("TOE", "TelephoneOutage", Emergency);
  ("TOR", "Tornado", Warning);
  ("TRA", "TropicalStorm", Watch);
  ("TRW", "TropicalStorm", Warning);
  ("TSA", "Tsunami", Watch);
  ("TSW", "Tsunami", Warning);
  ("VOW", "Volcano", Warning);
  ("WSA", "WinterStorm", Watch);
  ("WSW", "WinterStorm", Warning)
].

(** the documented human-readable descriptions (same source); where the crate's display
    text is known to differ from its own documentation the display text is what the
    documentation's neighbours imply (two rows: NMN, SPW) *)
Definition published_display : list (string * string) := [
  ("ADR", "Administrative Message"); ("AVA", "Avalanche Watch"); ("AVW", "Avalanche Warning");
  ("BLU", "Blue Alert"); ("BZW", "Blizzard Warning"); ("CAE", "Child Abduction Emergency");
  ("CDW", "Civil Danger Warning"); ("CEM", "Civil Emergency Message"); ("CFA", "Coastal Flood Watch");
  ("CFW", "Coastal Flood Warning"); ("DMO", "Practice/Demo Warning"); ("DSW", "Dust Storm Warning");
  ("EAN", "National Emergency Message"); ("EQW", "Earthquake Warning"); ("EVI", "Evacuation Immediate");
  ("EWW", "Extreme Wind Warning"); ("FFA", "Flash Flood Watch"); ("FFS", "Flash Flood Statement");
  ("FFW", "Flash Flood Warning"); ("FLA", "Flood Watch"); ("FLS", "Flood Statement"); ("FLW", "Flood Warning");
  ("FRW", "Fire Warning"); ("FSW", "Flash Freeze Warning"); ("FZW", "Freeze Warning");
  ("HLS", "Hurricane Local Statement"); ("HMW", "Hazardous Materials Warning"); ("HUA", "Hurricane Watch");
  ("HUW", "Hurricane Warning"); ("HWA", "High Wind Watch"); ("HWW", "High Wind Warning");
  ("LAE", "Local Area Emergency"); ("LEW", "Law Enforcement Warning"); ("NAT", "National Audible Test");
  ("NIC", "National Information Center"); ("NMN", "Network Message Notification");
  ("NPT", "National Periodic Test"); ("NST", "National Silent Test"); ("NUW", "Nuclear Power Plant Warning");
  ("RHW", "Radiological Hazard Warning"); ("RMT", "Required Monthly Test"); ("RWT", "Required Weekly Test");
  ("SMW", "Special Marine Warning"); ("SPS", "Special Weather Statement"); ("SPW", "Shelter In Place Warning");
  ("SQW", "Snow Squall Warning"); ("SSA", "Storm Surge Watch"); ("SSW", "Storm Surge Warning");
  ("SVA", "Severe Thunderstorm Watch"); ("SVR", "Severe Thunderstorm Warning"); ("SVS", "Severe Weather Statement");
  ("TOA", "Tornado Watch"); ("TOE", "911 Telephone Outage Emergency"); ("TOR", "Tornado Warning");
  ("TRA", "Tropical Storm Watch"); ("TRW", "Tropical Storm Warning"); ("TSA", "Tsunami Watch");
  ("TSW", "Tsunami Warning"); ("VOW", "Volcano Warning"); ("WSA", "Winter Storm Watch");
  ("WSW", "Winter Storm Warning")
].

(** expected significance table: name, one-letter code, display, numeric value *)
Definition significance_spec : list (sig * string * string * N) := [
  (Test, "T", "Test", 0%N); (Statement, "S", "Statement", 1%N); (Emergency, "E", "Emergency", 2%N);
  (Watch, "A", "Watch", 3%N); (Warning, "W", "Warning", 4%N); (Unknown, "", "Warning", 5%N)
].

(** expected originator decoding for three-character codes *)
Definition originator_spec : list (string * string) := [
  ("CIV", "CivilAuthority"); ("EAS", "BroadcastStation");
  ("PEP", "PrimaryEntryPoint"); ("WXR", "NationalWeatherService")
].
