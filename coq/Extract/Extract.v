(** Extraction of the executable models to OCaml.
    Only [ExtrOcamlBasic] is used: bool, option, list, prod, unit, sumbool
    are mapped to OCaml's; N / positive / Z / nat stay inductive.
    There is no [Extract Constant] and no [Extract Inductive] of our own. *)
Require Extraction.
Require ExtrOcamlBasic.
From Sameold Require Import Base.Bytes Model.Header Model.Combiner Model.IssueTime Model.Events
  Model.Framer Model.Squelch Model.Assembler Model.Receiver Model.ResetShape Model.Config Model.App Model.Input.
Extraction Language OCaml.
Set Extraction KeepSingleton.
Extraction "Extract/model.ml"
  Bytes.popcount
  Header.valid_utf8 Header.check_header Header.header_new
  Header.header_new_with_errors Header.header_new_with_error_info
  Header.message_try_from_str Header.message_try_from_str_errs Header.message_try_from_bytes
  Header.message_as_str
  Header.originator_str Header.event_str Header.locations Header.location_str
  Header.valid_duration_fields Header.issue_daytime_fields Header.callsign
  Combiner.is_allowed_byte Combiner.bit_vote_detect Combiner.bit_vote_correct
  Combiner.estimate_message Combiner.combine
  IssueTime.calculate_issue_time IssueTime.is_expired_at IssueTime.day_number
  Events.event_from Events.event_display Events.event_is_test Events.event_is_unrecognized
  Events.phen_is_national Events.phen_is_weather Events.phen_brief Events.sig_as_u8 Events.sig_name
  Events.sig_display_str Events.sig_code_str Events.sig_from
  Events.originator_from_org_and_call Events.is_national
  Framer.framer_input Framer.framer_end Framer.framer_state Framer.message_prefix_errors_u32
  Squelch.sq_input Squelch.sq_init Squelch.sq_end Squelch.sq_set_lock
  Assembler.asm_init Assembler.asm_assemble Assembler.asm_idle
  Receiver.rx_init Receiver.step_item Receiver.uses_eq Receiver.skip Receiver.pop_event
  Receiver.process Receiver.run_core Receiver.next_message Receiver.flush
  ResetShape.receiver_reset ResetShape.fresh ResetShape.config_of
  Config.builder_new Config.apply_calls Config.build BinInt.Z.leb
  App.run App.build_env Input.all_samples.
