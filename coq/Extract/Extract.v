(** Extraction of the executable models to OCaml.
    Only [ExtrOcamlBasic] is used: bool, option, list, prod, unit, sumbool
    are mapped to OCaml's; N / positive / Z / nat stay inductive.
    There is no [Extract Constant] and no [Extract Inductive] of our own. *)
Require Extraction.
Require ExtrOcamlBasic.
From Sameold Require Import Base.Bytes Model.Header Model.Combiner Model.IssueTime.
Extraction Language OCaml.
Set Extraction KeepSingleton.
Extraction "Extract/model.ml"
  Bytes.popcount
  Header.valid_utf8 Header.check_header Header.header_new
  Header.header_new_with_errors Header.header_new_with_error_info
  Header.message_try_from_str Header.message_try_from_str_errs Header.message_try_from_bytes
  Header.message_as_str
  Header.originator_str Header.event_str Header.locations Header.location_str
  Header.valid_duration_fields Header.issue_daytime_fields Header.callsign
  Combiner.is_allowed_byte Combiner.bit_vote_detect Combiner.bit_vote_correct
  Combiner.estimate_message Combiner.combine
  IssueTime.calculate_issue_time IssueTime.is_expired_at IssueTime.day_number.
