#!/bin/sh
# Build the whole framework offline from files on disk: Rust harness (hooks on) against /repo,
# Gen/Generated.v, the Coq development (full .vo), the extracted model driver, samedec.
set -e
cd "$(dirname "$0")"
export CARGO_NET_OFFLINE=true
python3 - <<'PY'
import sys, os
sys.path.insert(0, os.path.join(os.getcwd(), "lib"))
import vlib
with vlib.Lock():
    vlib.build_harness()
    print("harness built")
    print("Generated.v changed:", vlib.regenerate()[0])
    rc, out = vlib.coq_make([], timeout=3000)
    print(out[-3000:])
    if rc != 0:
        sys.exit("coq build failed")
    vlib.build_modelrun()
    print("modelrun built")
    vlib.build_samedec()
    print("samedec built")
PY
