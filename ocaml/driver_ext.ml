(* further commands are added here as the model grows *)
let handle (_toks : string list) : string = "DRIVER-ERROR unknown command"
