(* further commands of the model driver: the structural reset model (C18) *)
open Model

let rec pos_of_int (i : int) : positive =
  if i = 1 then XH else if i land 1 = 0 then XO (pos_of_int (i lsr 1)) else XI (pos_of_int (i lsr 1))
let n_of_int (i : int) : n = if i = 0 then N0 else Npos (pos_of_int i)
let rec int_of_pos (p : positive) : int =
  match p with XH -> 1 | XO q -> 2 * int_of_pos q | XI q -> 2 * int_of_pos q + 1
let int_of_n (x : n) : int = match x with N0 -> 0 | Npos p -> int_of_pos p

let tok s = n_of_int (int_of_string s)
let toks s = if s = "-" then [] else List.map tok (String.split_on_char ',' s)
let stok x = string_of_int (int_of_n x)
let stoks l = if l = [] then "-" else String.concat "," (List.map stok l)

(* state serialisation: 64 leaf paths in a fixed order, lists comma separated *)
let parse_state (f : string array) : receiver =
  let i = ref 0 in
  let nx () = let v = f.(!i) in incr i; v in
  let t () = tok (nx ()) and l () = toks (nx ()) in
  let mavg () = let w = l () in let a = t () in let b = t () in let c = t () in { ma_window = w; ma_inv_len = a; ma_sum = b; ma_since = c } in
  let ff = mavg () in let fb = mavg () in
  let ag = let a = t () in let b = t () in let c = t () in let d = t () in let e = t () in
    { ag_bandwidth = a; ag_min = b; ag_max = c; ag_locked = d; ag_gain = e } in
  let de = let w = l () in let m = t () in let s = t () in { de_window = w; de_mark = m; de_space = s } in
  let sy = let a = t () in let b = t () in let c = t () in let d = t () in let e = t () in let f1 = t () in
    let g = t () in let h = l () in let k = t () in
    { sy_spt = a; sy_pmin = b; sy_pmax = c; sy_alpha = d; sy_beta = e; sy_pavg = f1; sy_pinst = g;
      sy_ted_hist = h; sy_ted_count = k } in
  let sq = let a = t () in let b = t () in let c = t () in let d = t () in let e = t () in let f1 = t () in
    let g = t () in let h = t () in let k = t () in let m = t () in let n1 = t () in let o = t () in
    { sq_max_errors = a; sq_popen = b; sq_pclose = c; sq_sync_to = d; sq_data = e; sq_pt_bw = f1; sq_pt_power = g;
      sq_sample_hist = h; sq_power_hist = k; sq_symbols = m; sq_sample_clock = n1; sq_sync_lock = o } in
  let eq = let a = t () in let b = t () in let c = t () in let d = l () in let e = l () in let f1 = l () in
    let g = l () in let h = t () in
    { eq_relax = a; eq_regul = b; eq_train_to = c; eq_ff_coeff = d; eq_fb_coeff = e; eq_ff_wind = f1;
      eq_fb_wind = g; eq_mode = h } in
  let fr = let a = t () in let b = t () in let c = t () in let d = t () in
    { fr_state = a; fr_last_burst = b; fr_max_prefix = c; fr_max_invalid = d } in
  let asm = let a = t () in let b = t () in let c = t () in { as_history = a; as_state = b; as_previous = c } in
  let bwu = t () in let bwl = t () in let rate = t () in let sc = t () in let lk = t () in let tr = t () in
  let q = t () in let tc = t () in let ut = t () in let fe = t () in
  { x_dc_ff = ff; x_dc_fb = fb; x_agc = ag; x_demod = de; x_sym = sy; x_squelch = sq; x_eq = eq; x_framer = fr;
    x_asm = asm; x_bw_unlocked = bwu; x_bw_locked = bwl; x_rate = rate; x_sample_counter = sc; x_link = lk;
    x_transport = tr; x_queue = q; x_ted_clock = tc; x_until_ted = ut; x_force_eom = fe }

let show_state (x : receiver) : string =
  let mavg m = [ stoks m.ma_window; stok m.ma_inv_len; stok m.ma_sum; stok m.ma_since ] in
  String.concat " " (
    mavg x.x_dc_ff @ mavg x.x_dc_fb
    @ [ stok x.x_agc.ag_bandwidth; stok x.x_agc.ag_min; stok x.x_agc.ag_max; stok x.x_agc.ag_locked; stok x.x_agc.ag_gain ]
    @ [ stoks x.x_demod.de_window; stok x.x_demod.de_mark; stok x.x_demod.de_space ]
    @ (let s = x.x_sym in [ stok s.sy_spt; stok s.sy_pmin; stok s.sy_pmax; stok s.sy_alpha; stok s.sy_beta;
                            stok s.sy_pavg; stok s.sy_pinst; stoks s.sy_ted_hist; stok s.sy_ted_count ])
    @ (let q = x.x_squelch in [ stok q.sq_max_errors; stok q.sq_popen; stok q.sq_pclose; stok q.sq_sync_to; stok q.sq_data;
                                stok q.sq_pt_bw; stok q.sq_pt_power; stok q.sq_sample_hist; stok q.sq_power_hist;
                                stok q.sq_symbols; stok q.sq_sample_clock; stok q.sq_sync_lock ])
    @ (let e = x.x_eq in [ stok e.eq_relax; stok e.eq_regul; stok e.eq_train_to; stoks e.eq_ff_coeff; stoks e.eq_fb_coeff;
                           stoks e.eq_ff_wind; stoks e.eq_fb_wind; stok e.eq_mode ])
    @ [ stok x.x_framer.fr_state; stok x.x_framer.fr_last_burst; stok x.x_framer.fr_max_prefix; stok x.x_framer.fr_max_invalid ]
    @ [ stok x.x_asm.as_history; stok x.x_asm.as_state; stok x.x_asm.as_previous ]
    @ [ stok x.x_bw_unlocked; stok x.x_bw_locked; stok x.x_rate; stok x.x_sample_counter; stok x.x_link; stok x.x_transport;
        stok x.x_queue; stok x.x_ted_clock; stok x.x_until_ted; stok x.x_force_eom ])

(* resetshape <11 constant tokens> <initial_gain> <alpha> <beta> <training tokens, comma list or -> <62 state fields> *)
let handle_c18 (toks_ : string list) : string =
  match toks_ with
  | "resetshape" :: rest ->
    let a = Array.of_list rest in
    if Array.length a <> 11 + 4 + 62 then "DRIVER-ERROR resetshape arity " ^ string_of_int (Array.length a)
    else begin
      let c k = tok a.(k) in
      let ig = tok a.(11) and al = tok a.(12) and be = tok a.(13) in
      let training = toks a.(14) in
      let x = parse_state (Array.sub a 15 62) in
      let initial_gain _ _ = ig and alphabeta _ = (al, be) in
      let is_training m = List.mem m training in
      let r = receiver_reset (c 0) (c 1) (c 2) (c 3) (c 4) (c 5) (c 6) (c 7) (c 8) (c 9) (c 10)
                initial_gain alphabeta is_training x in
      let f = fresh (c 0) (c 1) (c 2) (c 3) (c 4) (c 5) (c 6) (c 7) (c 8) (c 9) (c 10)
                initial_gain alphabeta (config_of x) in
      show_state r ^ " | " ^ show_state f
    end
  | _ -> "DRIVER-ERROR unknown command:" ^ String.concat " " toks_

(* ---------------- C17: builder calls and construction over an order-isomorphic image of f32 ---------------- *)
let z_of_int (i : int) : z =
  if i = 0 then Z0 else if i > 0 then Zpos (pos_of_int i) else Zneg (pos_of_int (- i))
let int_of_z (x : z) : int =
  match x with Z0 -> 0 | Zpos p -> int_of_pos p | Zneg p -> - (int_of_pos p)
let rec nat_of_int (i : int) : nat = if i = 0 then O else S (nat_of_int (i - 1))
let int_of_nat (x : nat) : int = let rec go acc = function O -> acc | S k -> go (acc + 1) k in go 0 x

let key_of_bits (s : string) : int =
  let b = int_of_string (if String.length s > 2 && String.sub s 0 2 = "0x" then s else "0x" ^ s) in
  if b land 0x80000000 <> 0 then - (b land 0x7fffffff) else b
let kz s = z_of_int (key_of_bits s)
let f0 = z_of_int 0 and f1 = z_of_int 0x3f800000 and fhalf = z_of_int 0x3f000000 and fmaxv = z_of_int 0x7f7fffff
(* documented defaults: 0.38 0.01 1e6 0.125 0.05 0.01 0.10 0.05 0.125 ; equalizer 0.05 1e-6 *)
let dflt = List.map kz ["3ec28f5c"; "3c23d70a"; "49742400"; "3e000000"; "3d4ccccd"; "3c23d70a"; "3dcccccd"; "3d4ccccd"; "3e000000"; "3d4ccccd"; "358637bd"]

let parse_call (c : string) : z call =
  let a = Array.of_list (String.split_on_char ':' c) in
  let optf s = if s = "-" then None else Some (kz s) in
  match a.(0) with
  | "dc" -> CDc (kz a.(1)) | "agc" -> CAgcBw (kz a.(1)) | "gain" -> CGain (kz a.(1), kz a.(2))
  | "tbw" -> CTimingBw (kz a.(1), kz a.(2)) | "dev" -> CMaxDev (kz a.(1))
  | "sqp" -> CSquelchPower (kz a.(1), kz a.(2)) | "sqbw" -> CSquelchBw (kz a.(1))
  | "pre" -> CPre (n_of_int (int_of_string a.(1))) | "pfx" -> CPfx (n_of_int (int_of_string a.(1)))
  | "inv" -> CInv (n_of_int (int_of_string a.(1)))
  | "noeq" -> CNoEq
  | "eq" ->
    let order = if a.(1) = "-" then None else Some (nat_of_int (int_of_string a.(1)), nat_of_int (int_of_string a.(2))) in
    CEq (order, optf a.(3), optf a.(4))
  | _ -> failwith "bad call"

let handle_c17 (toks_ : string list) : string =
  match toks_ with
  | [ "cfgcalls"; rate; calls; ntaps; dcraw ] ->
    let d k = List.nth dflt k in
    let b0 = builder_new f0 (d 0) (d 1) (d 2) (d 3) (d 4) (d 5) (d 6) (d 7) (d 8) (d 9) (d 10) (n_of_int (int_of_string rate)) in
    let cs = List.filter (fun c -> c <> "" && c <> "-") (String.split_on_char ';' calls) in
    (match apply_calls Z.leb f0 f1 fhalf fmaxv (d 9) (d 10) b0 (List.map parse_call cs) with
     | Panic site -> "panic " ^ string_of_int (int_of_n site)
     | Done b ->
       let eqs = match b.b_eq with
         | Some e -> Printf.sprintf "%d:%d:%d:%d" (int_of_nat e.e_nff) (int_of_nat e.e_nfb) (int_of_z e.e_relax) (int_of_z e.e_regul)
         | None -> "none" in
       let getters = Printf.sprintf "%d %d %d %d %d %d %d %d %d %d %d %s %d %d"
           (int_of_z b.b_dc) (int_of_z b.b_agc_bw) (int_of_z b.b_gmin) (int_of_z b.b_gmax) (int_of_z b.b_tbu) (int_of_z b.b_tbl)
           (int_of_z b.b_maxdev) (int_of_z b.b_sqo) (int_of_z b.b_sqc) (int_of_z b.b_sqbw) (int_of_n b.b_pre) eqs
           (int_of_n b.b_pfx) (int_of_n b.b_inv) in
       (match build Z.leb f0 f1 fhalf (d 9) (d 10) b (nat_of_int (int_of_string ntaps)) (nat_of_int (int_of_string dcraw)) f0 with
        | Panic site -> "panic " ^ string_of_int (int_of_n site)
        | Done l -> Printf.sprintf "ok %s lens=%d,%d,%d,%d" getters (int_of_nat l.l_dc) (int_of_nat l.l_demod) (int_of_nat l.l_ff) (int_of_nat l.l_fb)))
  | _ -> "DRIVER-ERROR unknown command"

(* ---------------- C11/C12/C19: samedec's control flow over a scripted transducer ---------------- *)
let hexval c = match c with '0'..'9' -> Char.code c - 48 | 'a'..'f' -> Char.code c - 87 | 'A'..'F' -> Char.code c - 55 | _ -> failwith "bad hex"
let bytes_of_hex (s : string) : int list =
  if s = "-" then [] else List.init (String.length s / 2) (fun i -> 16 * hexval s.[2 * i] + hexval s.[2 * i + 1])
let hex_of_nl (l : n list) : string =
  if l = [] then "-" else String.concat "" (List.map (fun b -> Printf.sprintf "%02x" (int_of_n b)) l)
let nl_of_hex s = List.map n_of_int (bytes_of_hex s)

(* a message as samedec prints it: the header text, or NNNN *)
let message_of_display (hexs : string) : message =
  let b = nl_of_hex hexs in
  if hexs = "4e4e4e4e" then EOM
  else match header_new b with Ok h -> SOM h | Err _ -> failwith "display text is not a header"
let display_of_message (m : message) : string = hex_of_nl (message_as_str m)

type scripted = { sched : (int * message) list; spos : int; fl : message list }

let rec drop k l = if k <= 0 then l else match l with [] -> [] | _ :: r -> drop (k - 1) r

let sc_next (rx : scripted) (inp : int list) : (message option * scripted) * int list =
  let n = List.length inp in
  match rx.sched with
  | (idx, m) :: rest when idx <= rx.spos + n ->
    let k = idx - rx.spos in
    ((Some m, { rx with sched = rest; spos = idx }), drop k inp)
  | _ -> ((None, { rx with spos = rx.spos + n }), [])

let sc_flush (rx : scripted) : message option * scripted =
  match rx.fl with
  | m :: r when rx.sched = [] -> (Some m, { rx with fl = r })
  | _ -> (None, rx)

let handle_app (toks_ : string list) : string =
  match toks_ with
  | [ "apprun"; quiet; has_child; spawn_bits; nsamples; msgs; flushed ] ->
    let sched = if msgs = "-" then [] else
        List.map (fun t -> match String.split_on_char '@' t with
            | [ hx; idx ] -> (int_of_string idx, message_of_display hx)
            | _ -> failwith "bad msg token") (String.split_on_char ';' msgs) in
    let fl = if flushed = "-" then [] else List.map message_of_display (String.split_on_char ';' flushed) in
    let n = int_of_string nsamples in
    let input = List.init n (fun i -> i) in
    let spawn_ok (k : nat) : bool =
      let i = int_of_nat k in
      if spawn_bits = "-" then true else if i < String.length spawn_bits then spawn_bits.[i] = '1' else true in
    (match run sc_next sc_flush (nat_of_int 400) (quiet = "1") (has_child = "1") spawn_ok { sched; spos = 0; fl } input with
     | None -> "out-of-fuel"
     | Some o ->
       let so = if o.o_stdout = [] then "-" else String.concat ";" (List.map display_of_message o.o_stdout) in
       let sp = if o.o_spawns = [] then "-" else String.concat ";" (List.map (fun r ->
           let h = hex_of_nl r.sp_header.h_text in
           match r.sp_child with
           | None -> h ^ ":fail"
           | Some (p, fed) -> Printf.sprintf "%s:%d:%d" h (int_of_nat p) (List.length fed)) o.o_spawns) in
       "stdout=" ^ so ^ " spawns=" ^ sp)
  | [ "childenv"; hdr; rate; year; doy ] ->
    (match header_new (nl_of_hex hdr) with
     | Err _ -> "not-a-header"
     | Ok h ->
       (match build_env h (nl_of_hex rate) (z_of_int (int_of_string year)) (z_of_int (int_of_string doy)) with
        | Panic site -> "panic " ^ string_of_int (int_of_n site)
        | Done e ->
          String.concat " " (List.map hex_of_nl [ e.env_rate; e.env_msg; e.env_org; e.env_originator; e.env_evt; e.env_event;
                                                  e.env_significance; e.env_sig_num; e.env_locations; e.env_issuetime;
                                                  e.env_purgetime; e.env_is_national ])))
  | [ "readi16"; chunks ] ->
    (* the reader model over the given read() chunks: every sample up to the first None *)
    let cs = if chunks = "-" then [] else List.map nl_of_hex (String.split_on_char ',' chunks) in
    let total = List.fold_left (fun a c -> a + List.length c) 0 cs in
    let out = all_samples (nat_of_int (total + 2)) { rd_buf = []; rd_src = cs } in
    if out = [] then "-" else String.concat "," (List.map (fun z -> string_of_int (int_of_z z)) out)
  | _ -> "DRIVER-ERROR unknown command"

let handle (toks_ : string list) : string =
  match toks_ with
  | "resetshape" :: _ -> handle_c18 toks_
  | "cfgcalls" :: _ -> handle_c17 toks_
  | "apprun" :: _ | "childenv" :: _ | "readi16" :: _ -> handle_app toks_
  | _ -> "DRIVER-ERROR unknown command"
