(* modelrun: line-oriented driver around the extracted Coq model.
   One request per line on stdin, one canonical response per line on stdout.
   Byte strings are lowercase hex ("-" for empty); numbers are decimal. *)
open Model

(* ---------- conversions between OCaml ints and the extracted inductives ---------- *)
let rec pos_of_int (i : int) : positive =
  if i = 1 then XH
  else if i land 1 = 0 then XO (pos_of_int (i lsr 1))
  else XI (pos_of_int (i lsr 1))
let n_of_int (i : int) : n = if i = 0 then N0 else Npos (pos_of_int i)
let rec int_of_pos (p : positive) : int =
  match p with XH -> 1 | XO q -> 2 * int_of_pos q | XI q -> 2 * int_of_pos q + 1
let int_of_n (x : n) : int = match x with N0 -> 0 | Npos p -> int_of_pos p
let rec nat_of_int (i : int) : nat = if i = 0 then O else S (nat_of_int (i - 1))
let int_of_nat (x : nat) : int =
  let rec go acc = function O -> acc | S k -> go (acc + 1) k in go 0 x
let z_of_int (i : int) : z =
  if i = 0 then Z0 else if i > 0 then Zpos (pos_of_int i) else Zneg (pos_of_int (- i))
let int_of_z (x : z) : int =
  match x with Z0 -> 0 | Zpos p -> int_of_pos p | Zneg p -> - (int_of_pos p)


(* ---------- hex ---------- *)
let hexval c =
  match c with
  | '0' .. '9' -> Char.code c - 48
  | 'a' .. 'f' -> Char.code c - 87
  | 'A' .. 'F' -> Char.code c - 55
  | _ -> failwith "bad hex"
let bytes_of_hex (s : string) : int list =
  if s = "-" then []
  else begin
    let n = String.length s / 2 in
    List.init n (fun i -> 16 * hexval s.[2 * i] + hexval s.[2 * i + 1])
  end
let hex_of_bytes (l : int list) : string =
  if l = [] then "-"
  else String.concat "" (List.map (fun b -> Printf.sprintf "%02x" b) l)
let nl_of_hex s = List.map n_of_int (bytes_of_hex s)
let hex_of_nl l = hex_of_bytes (List.map int_of_n l)

(* FNV-1a, 64 bit, over a sequence of small ints *)
let fnv_init = 0xcbf29ce484222325L
let fnv_step (h : int64) (b : int) : int64 =
  Int64.mul (Int64.logxor h (Int64.of_int (b land 0xff))) 0x100000001b3L

let fnv_i64 (h : int64) (v : int) : int64 =
  let h = ref h in
  for k = 0 to 7 do h := fnv_step !h ((v asr (8 * k)) land 0xff) done; !h

(* proleptic Gregorian helpers used only to enumerate receive dates for block sweeps *)
let is_leap_i y = (y mod 4 = 0) && ((y mod 100 <> 0) || (y mod 400 = 0))
let year_len_i y = if is_leap_i y then 366 else 365
(* (year, ordinal) + offset days, for small offsets *)
let rec add_days (y, o) off =
  let o' = o + off in
  if o' < 1 then add_days (y - 1, o' + year_len_i (y - 1)) 0
  else if o' > year_len_i y then add_days (y + 1, o' - year_len_i y) 0
  else (y, o')

let issue_val doy h m ry ro : int =
  match calculate_issue_time (z_of_int doy) (z_of_int h) (z_of_int m) (z_of_int ry) (z_of_int ro) with
  | None -> -1
  | Some t -> int_of_z t

let err_str (e : decode_err) =
  match e with UnrecognizedPrefix -> "U" | NotAscii -> "A" | Malformed -> "M"

let outcome_str (f : 'a -> string) (o : 'a outcome) : string =
  match o with Done a -> f a | Panic s -> Printf.sprintf "PANIC%d" (int_of_n s)

(* every accessor of a header, in a fixed order *)
let header_fields (h : header) : string =
  let text = hex_of_nl h.h_text in
  let org = outcome_str hex_of_nl (originator_str h) in
  let evt = outcome_str hex_of_nl (event_str h) in
  let locs = outcome_str (fun ls -> String.concat "," (List.map hex_of_nl ls)) (locations h) in
  let dur = outcome_str (fun (a, b) -> Printf.sprintf "%d:%d" (int_of_n a) (int_of_n b))
      (valid_duration_fields h) in
  let iss = outcome_str (fun ((j, hh), mm) -> Printf.sprintf "%d:%d:%d" (int_of_n j) (int_of_n hh) (int_of_n mm))
      (issue_daytime_fields h) in
  let call = outcome_str hex_of_nl (callsign h) in
  let nat = outcome_str (fun b -> if b then "1" else "0") (is_national h) in
  (* MessageHeader::originator(): the decoded originator, from the ORG field and the callsign *)
  let orig = match originator_str h, callsign h with
    | Done o, Done c -> hex_of_nl (originator_from_org_and_call o c)
    | Panic s, _ | _, Panic s -> Printf.sprintf "PANIC%d" (int_of_n s) in
  Printf.sprintf "%s %d %d org=%s evt=%s locs=%s dur=%s iss=%s call=%s nat=%s orig=%s"
    text (int_of_n h.h_parity) (int_of_n h.h_voting) org evt locs dur iss call nat orig

let msg_result_str (r : msg_result) : string =
  match r with
  | Err e -> "err " ^ err_str e
  | Ok EOM -> "eom"
  | Ok (SOM h) -> "som " ^ header_fields h

let link_str (l : link) : string =
  match l with
  | LNoCarrier -> "n" | LSearching -> "s" | LReading -> "r"
  | LBurst b -> "B" ^ hex_of_nl b

let msg_short (m : message) : string =
  match m with
  | EOM -> "eom"
  | SOM h -> Printf.sprintf "som:%s:%d:%d" (hex_of_nl h.h_text) (int_of_n h.h_parity) (int_of_n h.h_voting)

let transport_str (t : transport) : string =
  match t with
  | TIdle -> "i" | TAssembling -> "a"
  | TMessage (Ok m) -> "M" ^ msg_short m
  | TMessage (Err e) -> "E" ^ err_str e

let event_str (e : event) : string =
  let w = match e.ev_what with
    | WLink LNoCarrier -> "Ln" | WLink LSearching -> "Ls" | WLink LReading -> "Lr"
    | WLink (LBurst b) -> "LB" ^ hex_of_nl b
    | WTransport TIdle -> "Ti" | WTransport TAssembling -> "Ta"
    | WTransport (TMessage (Ok m)) -> "TM" ^ msg_short m
    | WTransport (TMessage (Err er)) -> "TE" ^ err_str er in
  Printf.sprintf "%s@%d" w (int_of_n e.ev_time)

let tick_of_flags (fl : int) (b : int) : tick =
  { t_bit = fl land 1 <> 0; t_popen = fl land 2 <> 0; t_pclose = fl land 4 <> 0; t_eq = n_of_int b }

(* replay an item stream through the receiver model; returns events in order *)
let rx_replay_st (cfg : rcfg) (items : string) : string * rx =
  let st = ref rx_init in
  let evs = Buffer.create 4096 in
  let first = ref true in
  let bad = ref None in
  let drain () =
    let rec go () =
      match pop_event !st with
      | None -> ()
      | Some (e, s') ->
        st := s';
        if not !first then Buffer.add_char evs ';';
        first := false;
        Buffer.add_string evs (event_str e);
        go () in
    go () in
  if items <> "-" then
    List.iter (fun tok ->
        if tok <> "" then begin
          let kind = tok.[0] in
          let body = String.sub tok 1 (String.length tok - 1) in
          match kind with
          | 'G' -> st := skip !st (n_of_int (int_of_string body))
          | 'T' ->
            (match String.split_on_char ':' body with
             | gap :: fl :: rest ->
               st := skip !st (n_of_int (int_of_string gap));
               let has_byte, b = (match rest with [ h ] -> (true, int_of_string ("0x" ^ h)) | _ -> (false, 0)) in
               let t = tick_of_flags (int_of_string fl) b in
               let used = uses_eq cfg !st t in
               if used <> has_byte && !bad = None then
                 bad := Some (Printf.sprintf "EQ-MISMATCH at sample %d (model used=%b, trace has=%b)"
                                (int_of_n (!st).r_core.r_samples + 1) used has_byte);
               st := step_item cfg !st (Tick t);
               drain ()
             | _ -> failwith "bad tick token")
          | _ -> failwith "bad item token"
        end)
      (String.split_on_char ',' items);
  let r = if Buffer.length evs = 0 then "-" else Buffer.contents evs in
  ((match !bad with None -> r | Some m -> m ^ " " ^ r), !st)

let rx_replay cfg items = fst (rx_replay_st cfg items)

(* expand an item-token string into the model's item list *)
let items_of_tokens (items : string) : item list =
  let acc = ref [] in
  let push_n n = for _ = 1 to n do acc := NoTick :: !acc done in
  if items <> "-" then
    List.iter (fun tok ->
        if tok <> "" then begin
          let kind = tok.[0] in
          let body = String.sub tok 1 (String.length tok - 1) in
          match kind with
          | 'G' -> push_n (int_of_string body)
          | 'T' ->
            (match String.split_on_char ':' body with
             | gap :: fl :: rest ->
               push_n (int_of_string gap);
               let b = (match rest with [ h ] -> int_of_string ("0x" ^ h) | _ -> 0) in
               acc := Tick (tick_of_flags (int_of_string fl) b) :: !acc
             | _ -> failwith "bad tick token")
          | _ -> failwith "bad item token"
        end)
      (String.split_on_char ',' items);
  List.rev !acc

let msg_short (m : message) : string =
  match m with
  | EOM -> "eom"
  | SOM h -> Printf.sprintf "som:%s:%d:%d" (hex_of_nl h.h_text) (int_of_n h.h_parity) (int_of_n h.h_voting)

let handle (line : string) : string =
  let toks = List.filter (fun s -> s <> "") (String.split_on_char ' ' line) in
  match toks with
  | [ "vote2"; a; b ] ->
    let (v, e) = bit_vote_detect (n_of_int (int_of_string a)) (n_of_int (int_of_string b)) in
    Printf.sprintf "%d %d" (int_of_n v) (int_of_n e)
  | [ "vote3"; a; b; c ] ->
    let (v, e) = bit_vote_correct (n_of_int (int_of_string a)) (n_of_int (int_of_string b))
        (n_of_int (int_of_string c)) in
    Printf.sprintf "%d %d" (int_of_n v) (int_of_n e)
  | [ "vote2all" ] ->
    (* hash over all 2^16 pairs *)
    let h = ref fnv_init in
    for a = 0 to 255 do
      let na = n_of_int a in
      for b = 0 to 255 do
        let (v, e) = bit_vote_detect na (n_of_int b) in
        h := fnv_step (fnv_step !h (int_of_n v)) (int_of_n e)
      done
    done;
    Printf.sprintf "%016Lx" !h
  | [ "vote3block"; a ] ->
    (* hash over all 2^16 triples with fixed first byte *)
    let na = n_of_int (int_of_string a) in
    let h = ref fnv_init in
    for b = 0 to 255 do
      let nb = n_of_int b in
      for c = 0 to 255 do
        let (v, e) = bit_vote_correct na nb (n_of_int c) in
        h := fnv_step (fnv_step !h (int_of_n v)) (int_of_n e)
      done
    done;
    Printf.sprintf "%016Lx" !h
  | [ "allowed"; a ] ->
    if is_allowed_byte (n_of_int (int_of_string a)) then "1" else "0"
  | "estimate" :: bursts ->
    let ((m, c), e) = estimate_message (List.map nl_of_hex bursts) in
    Printf.sprintf "%s %s %s" (hex_of_nl m) (hex_of_nl c) (hex_of_nl e)
  | "combine" :: bursts ->
    (match combine (List.map nl_of_hex bursts) with
     | None -> "none"
     | Some r -> msg_result_str r)
  | [ "hdr"; s ] ->
    (match header_new (nl_of_hex s) with
     | Err e -> "err " ^ err_str e
     | Ok h -> "ok " ^ header_fields h)
  | [ "msgstr"; s ] -> msg_result_str (message_try_from_str (nl_of_hex s))
  | [ "msgbytes"; s; e; c ] ->
    msg_result_str (message_try_from_bytes (nl_of_hex s) (nl_of_hex e) (nl_of_hex c))
  | [ "issue"; j; h; m; ry; ro ] ->
    let v = issue_val (int_of_string j) (int_of_string h) (int_of_string m) (int_of_string ry) (int_of_string ro) in
    if v = -1 then "err" else string_of_int v
  | [ "issueblock"; yi; h; m ] ->
    (* every ordinal of issue year yi x receive offset -90..+90 days *)
    let yi = int_of_string yi and h = int_of_string h and m = int_of_string m in
    let hh = ref fnv_init in
    for oi = 1 to year_len_i yi do
      for off = -90 to 90 do
        let (ry, ro) = add_days (yi, oi) off in
        hh := fnv_i64 !hh (issue_val oi h m ry ro)
      done
    done;
    Printf.sprintf "%016Lx" !hh
  | [ "expired"; j; h; m; dh; dm; ry; ro; sod; ns ] ->
    let zi x = z_of_int (int_of_string x) in
    if is_expired_at (zi j) (zi h) (zi m) (zi dh) (zi dm) (zi ry) (zi ro) (zi sod) (zi ns) then "1" else "0"
  | [ "event"; s ] ->
    let e = event_from (nl_of_hex s) in
    let b x = if x then "1" else "0" in
    Printf.sprintf "%s %d %s %s %s %s %s" (hex_of_nl (fst e)) (int_of_n (sig_as_u8 (snd e)))
      (hex_of_nl (event_display e)) (b (event_is_test e)) (b (phen_is_national (fst e)))
      (b (phen_is_weather (fst e))) (b (event_is_unrecognized e))
  | [ "eventblock"; a ] ->
    (* all ASCII (b, c) for the given first byte: hash of phenomenon name and significance *)
    let a = int_of_string a in
    let h = ref fnv_init in
    for b = 0 to 127 do
      for c = 0 to 127 do
        let e = event_from [ n_of_int a; n_of_int b; n_of_int c ] in
        List.iter (fun x -> h := fnv_step !h (int_of_n x)) (fst e);
        h := fnv_step !h (int_of_n (sig_as_u8 (snd e)))
      done
    done;
    Printf.sprintf "%016Lx" !h
  | [ "orig"; o; c ] -> hex_of_nl (originator_from_org_and_call (nl_of_hex o) (nl_of_hex c))
  | [ "framer"; pfx; inv; script ] ->
    let c = { max_prefix_bit_errors = n_of_int (int_of_string pfx); max_invalid_bytes = n_of_int (int_of_string inv) } in
    let st = ref FIdle in
    let out = List.filter_map (fun t ->
        if t = "" then None else begin
          let k = t.[0] and rest = String.sub t 1 (String.length t - 1) in
          let (l, s') = match k with
            | 'b' -> framer_input c !st (n_of_int (int_of_string ("0x" ^ rest))) false
            | 'r' -> framer_input c !st (n_of_int (int_of_string ("0x" ^ rest))) true
            | 'e' -> framer_end !st
            | _ -> failwith "bad framer token" in
          st := s'; Some (link_str l)
        end) (String.split_on_char ',' script) in
    if out = [] then "-" else String.concat "," out
  | [ "prefixerr"; w ] -> string_of_int (int_of_n (message_prefix_errors_u32 (n_of_int (int_of_string w))))
  | [ "squelch"; maxerr; script ] ->
    let me = n_of_int (int_of_string maxerr) in
    let st = ref sq_init in
    let out = Buffer.create 256 in
    String.iter (fun c ->
        match c with
        | 'L' -> st := sq_set_lock !st true
        | 'U' -> st := sq_set_lock !st false
        | 'E' -> st := sq_end !st
        | '0' .. '7' ->
          let v = Char.code c - 48 in
          let (o, s') = sq_input me !st (v land 1 <> 0) (v land 2 <> 0) (v land 4 <> 0) in
          st := s';
          (match o with
           | SqNoCarrier -> Buffer.add_char out 'n'
           | SqDropped -> Buffer.add_char out 'd'
           | SqReading -> Buffer.add_char out 'r'
           | SqPanic -> Buffer.add_string out "PANIC"
           | SqReady (re, b) -> Buffer.add_string out (Printf.sprintf "%c%02x" (if re then 'Y' else 'y') (int_of_n b)))
        | _ -> failwith "bad squelch token") script;
    if Buffer.length out = 0 then "-" else Buffer.contents out
  | [ "asm"; script ] ->
    let st = ref asm_init in
    let out = List.filter_map (fun t ->
        if t = "" then None else begin
          let k = t.[0] and rest = String.sub t 1 (String.length t - 1) in
          let (tr, s') = match k with
            | 'a' ->
              (match String.split_on_char ':' rest with
               | [ tm; hx ] -> asm_assemble !st (nl_of_hex hx) (n_of_int (int_of_string tm))
               | _ -> failwith "bad asm token")
            | 'i' -> asm_idle !st (n_of_int (int_of_string rest))
            | _ -> failwith "bad asm token" in
          st := s'; Some (transport_str tr)
        end) (String.split_on_char ',' script) in
    if out = [] then "-" else String.concat ";" out
  | [ "rx"; rate; pfx; inv; pre; items ] ->
    let cfg = { preamble_max_errors = n_of_int (int_of_string pre);
                fc = { max_prefix_bit_errors = n_of_int (int_of_string pfx); max_invalid_bytes = n_of_int (int_of_string inv) };
                input_rate = n_of_int (int_of_string rate) } in
    rx_replay cfg items
  | "rxflush" :: rate :: pfx :: inv :: pre :: items :: fl ->
    let cfg = { preamble_max_errors = n_of_int (int_of_string pre);
                fc = { max_prefix_bit_errors = n_of_int (int_of_string pfx); max_invalid_bytes = n_of_int (int_of_string inv) };
                input_rate = n_of_int (int_of_string rate) } in
    let (evs, st0) = rx_replay_st cfg items in
    let st = ref st0 in
    let res = List.map (fun fitems ->
        let (m, s') = flush (nat_of_int 200) cfg !st (items_of_tokens fitems) in
        st := s';
        match m with Some mm -> msg_short mm | None -> "none") fl in
    evs ^ "|" ^ (if res = [] then "-" else String.concat "/" res)
  | [ "utf8"; s ] -> if valid_utf8 (nl_of_hex s) then "1" else "0"
  | _ -> Driver_ext.handle toks

let () =
  let buf = Buffer.create (1 lsl 16) in
  (try
     while true do
       let line = input_line stdin in
       let r = try handle line with Failure m -> "DRIVER-ERROR " ^ m in
       Buffer.add_string buf r;
       Buffer.add_char buf '\n';
       if Buffer.length buf > (1 lsl 16) then begin
         print_string (Buffer.contents buf); Buffer.clear buf
       end
     done
   with End_of_file -> ());
  print_string (Buffer.contents buf)
